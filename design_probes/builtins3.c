#include <stddef.h>
void *__builtin_memcpy(void *d, const void *s, size_t n){ __CPROVER_assert(__CPROVER_r_ok(s,n),"memcpy src readable"); __CPROVER_assert(__CPROVER_w_ok(d,n),"memcpy dst writable"); return d;}
void *__builtin_memmove(void *d, const void *s, size_t n){ __CPROVER_assert(__CPROVER_r_ok(s,n),"memmove src readable"); __CPROVER_assert(__CPROVER_w_ok(d,n),"memmove dst writable"); return d;}
void *__builtin_memset(void *d, int c, size_t n){ __CPROVER_assert(__CPROVER_w_ok(d,n),"memset dst writable"); return d;}
