#define CHECK(c) __CPROVER_assert((c), #c)
#include "compress/zstd_compress.c"
unsigned nondet_u32(void);
static BYTE arena[256];
void harness(void){
  ZSTD_window_t w; 
  U32 cycleLog = nondet_u32(), windowLog = nondet_u32();
  __CPROVER_assume(windowLog>=10 && windowLog<=31 && cycleLog<=30);
  U32 maxDist = 1u<<windowLog;
  U32 curr = nondet_u32();
  w.lowLimit = nondet_u32(); w.dictLimit = nondet_u32(); w.nbOverflowCorrections = nondet_u32();
  __CPROVER_assume(w.lowLimit <= w.dictLimit && w.dictLimit <= curr);
  __CPROVER_assume(curr > ZSTD_CURRENT_MAX);               /* when correction is triggered in production */
  const BYTE* src = arena+128;
  w.base = src - curr; w.dictBase = w.base; w.nextSrc = src;
  U32 idx = nondet_u32();                                  /* any stored index */
  __CPROVER_assume(idx <= curr);
  const BYTE* addr_before = w.base + idx;
  U32 lowBefore = w.lowLimit;
  U32 corr = ZSTD_window_correctOverflow(&w, cycleLog, maxDist, src);
  U32 newCurr = (U32)(src - w.base);
  CHECK(newCurr == curr - corr);
  CHECK((newCurr & ((1u<<cycleLog)-1)) == (curr & ((1u<<cycleLog)-1)));
  CHECK(newCurr >= maxDist + ZSTD_WINDOW_START_INDEX || newCurr - maxDist >= ZSTD_WINDOW_START_INDEX);
  CHECK(w.lowLimit <= w.dictLimit && w.dictLimit <= newCurr);
  CHECK(newCurr <= (1u<<30) + (1u<<31) + 2);
  /* table entry reduction preserves the address for every index still inside the window */
  U32 table[16]; for (int i=0;i<16;i++) table[i]=nondet_u32(); table[3]=idx;
  ZSTD_reduceTable(table, 16, corr);
  if (idx >= corr + ZSTD_WINDOW_START_INDEX) CHECK(w.base + table[3] == addr_before); else CHECK(table[3]==0);
  if (curr - idx <= maxDist && idx >= lowBefore) CHECK(idx >= corr + ZSTD_WINDOW_START_INDEX);  /* in-window indices survive */
#ifdef WITNESS
  CHECK(corr < (1u<<29));
#endif
}
