#define VCHECK(c) __CPROVER_assert((c), #c)
#include <stdio.h>
struct FIO_ctx_s; struct FIO_prefs_s;
static int FIO_compressFilename_internal_stub(void);
#include "fileio_patched.c"
int nondet_int(void);

/* ---------- file-system model: 2 paths ---------- */
enum { T_NONE, T_SRC, T_COMPLETE, T_PARTIAL, T_OTHER };
typedef struct { int exists, regular, tag, open; } node_t;
static node_t fs[2];                     /* 0 = "a" (src), 1 = "a.zst" (dst) */
static int idx(const char* p){ return (p[0]=='a' && p[1]==0) ? 0 : 1; }
static int dst_preexisted, dst_pretag;
static void crashpoint(void){            /* data-safety predicate after every FS-mutating call */
  VCHECK( (fs[0].exists && fs[0].tag==T_SRC) || (fs[1].exists && fs[1].tag==T_COMPLETE && fs[1].open==0) );
}
static FILE fsrc, fdst;
int UTIL_stat(const char* f, stat_t* st){ int i=idx(f); if(!fs[i].exists) return 0; st->st_mode = fs[i].regular ? S_IFREG : S_IFIFO; st->st_ino=i+1; st->st_dev=1; return 1; }
int UTIL_isRegularFile(const char* f){ int i=idx(f); return fs[i].exists && fs[i].regular; }
int UTIL_isSameFile(const char* a, const char* b){ return idx(a)==idx(b); }
int UTIL_isSameFileStat(const char* a, const char* b, const stat_t* x, const stat_t* y){ return idx(a)==idx(b); }
int UTIL_requireUserConfirmation(const char* p, const char* ab, const char* ok, int hasStdin){ return nondet_int()&1; }
int UTIL_setFDStat(const int fd, const char* f, const stat_t* st){ return 0; }
int UTIL_utime(const char* f, const stat_t* st){ return 0; }
int UTIL_isCompressedFile(const char* f, const char* l[]){ return nondet_int()&1; }
FILE* fopen(const char* p, const char* m){ if (nondet_int()&1) return 0; fs[idx(p)].open++; return &fsrc; }
int open(const char* p, int fl, ...){ if (nondet_int()&1) return -1; int i=idx(p); fs[i].exists=1; fs[i].regular=1; fs[i].tag=T_PARTIAL; fs[i].open++; crashpoint(); return 5; }
FILE* fdopen(int fd, const char* m){ return &fdst; }
int fileno(FILE* f){ return 5; }
int setvbuf(FILE* f, char* b, int m, size_t n){ return 0; }
int remove(const char* p){ if (nondet_int()&1) return -1; int i=idx(p); fs[i].exists=0; fs[i].tag=T_NONE; crashpoint(); return 0; }
/* AIO pools */
struct WritePoolCtx_s { int dummy; }; struct ReadPoolCtx_s { int dummy; };
static FILE* wfile; static FILE* rfile;
void AIO_WritePool_setFile(WritePoolCtx_t* c, FILE* f){ wfile=f; }
FILE* AIO_WritePool_getFile(const WritePoolCtx_t* c){ return wfile; }
int AIO_WritePool_closeFile(WritePoolCtx_t* c){ wfile=0; fs[1].open=0; int r=nondet_int()&1; if (r && fs[1].tag==T_COMPLETE) fs[1].tag=T_PARTIAL; crashpoint(); return r; }
void AIO_WritePool_setAsync(WritePoolCtx_t* c, int a){} void AIO_ReadPool_setAsync(ReadPoolCtx_t* c, int a){}
void AIO_ReadPool_setFile(ReadPoolCtx_t* c, FILE* f){ rfile=f; } FILE* AIO_ReadPool_getFile(const ReadPoolCtx_t* c){ return rfile; }
int AIO_ReadPool_closeFile(ReadPoolCtx_t* c){ rfile=0; fs[0].open=0; return 0; }
void harness(void){
  static FIO_prefs_t prefs; static FIO_ctx_t fctx; static cRess_t ress; static struct WritePoolCtx_s w; static struct ReadPoolCtx_s r;
  ress.writeCtx=&w; ress.readCtx=&r;
  prefs.removeSrcFile=nondet_int()&1; prefs.overwrite=nondet_int()&1; prefs.testMode=0; prefs.sparseFileSupport=nondet_int()&1; prefs.excludeCompressedFiles=0;
  fs[0].exists=1; fs[0].regular=1; fs[0].tag=T_SRC;
  fs[1].exists=nondet_int()&1; fs[1].regular=1; fs[1].tag=fs[1].exists?T_OTHER:T_NONE; dst_preexisted=fs[1].exists;
  g_display_prefs.displayLevel = 1;
  int res = FIO_compressFilename_srcFile(&fctx,&prefs,ress,"a.zst","a",3);
  VCHECK(fs[0].exists || (fs[1].exists && fs[1].tag==T_COMPLETE));
  if (res!=0) { VCHECK(fs[0].exists && fs[0].tag==T_SRC); VCHECK(!(fs[1].exists && fs[1].tag==T_PARTIAL)); }
  if (dst_preexisted && !prefs.overwrite) VCHECK(fs[1].exists && fs[1].tag==T_OTHER);
#ifdef WITNESS
  VCHECK(res!=0);
#endif
}

static int FIO_compressFilename_internal(FIO_ctx_t* const fCtx, FIO_prefs_t* const prefs, cRess_t ress, const char* dstFileName, const char* srcFileName, int compressionLevel){
  int r = nondet_int()&1; if (r==0) fs[1].tag=T_COMPLETE; return r; }
int UTIL_isRegularFileStat(const stat_t* s){ return S_ISREG(s->st_mode); }
int UTIL_isDirectoryStat(const stat_t* s){ return S_ISDIR(s->st_mode); }
int UTIL_isFIFOStat(const stat_t* s){ return S_ISFIFO(s->st_mode); }
int UTIL_isBlockDevStat(const stat_t* s){ return S_ISBLK(s->st_mode); }
U64 UTIL_getFileSizeStat(const stat_t* s){ return UTIL_FILESIZE_UNKNOWN; }
typedef void (*sigh_t)(int);
sigh_t signal(int s, sigh_t h){ return h; }
