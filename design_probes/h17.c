#define CHECK(c) __CPROVER_assert((c), #c)
#include "common/entropy_common.c"
#include <stdlib.h>
size_t nondet_size_t(void); unsigned nondet_u32(void); unsigned char nondet_u8(void);
#define N 8
#define SL 64
static BYTE A[SL+N];
void harness(void){
  size_t n=nondet_size_t(); __CPROVER_assume(n<=N);
  for (int i=0;i<N;i++) A[SL+i]=nondet_u8();
  const BYTE* src=A+SL+(N-n);
  short norm[53]; unsigned maxSV=nondet_u32(); __CPROVER_assume(maxSV<=52); unsigned req=maxSV; unsigned tl;
  size_t r = FSE_readNCount(norm,&maxSV,&tl,src,n);
  if (!ERR_isError(r)) {
    CHECK(r<=n); CHECK(maxSV<=req); CHECK(tl>=5 && tl<=15);
    int sum=0; for (unsigned s=0;s<=52;s++) if (s<=maxSV) { CHECK(norm[s]>=-1); sum += norm[s]<0 ? 1 : norm[s]; }
    CHECK(sum == (1<<tl));
  }
#ifdef WITNESS
  CHECK(ERR_isError(r));
#endif
}
