#define CHECK(c) __CPROVER_assert((c), #c)
#include "compress/zstd_compress.c"
size_t nondet_size_t(void); int nondet_int(void); unsigned nondet_u32(void); unsigned char nondet_u8(void);
#define N 16
#define NS 3
#define SL 64
static ZSTD_CCtx cctx; static ZSTD_compressedBlockState_t prevB, nextB;
static BYTE srcA[SL+N]; static seqDef seqs[8]; static BYTE lits[N+WILDCOPY_OVERLENGTH+8]; static BYTE llc[8], mlc[8], ofc[8];
void harness(void){
  ZSTD_Sequence in[NS];
  for (int i=0;i<NS;i++){ in[i].offset=nondet_u32(); in[i].litLength=nondet_u32(); in[i].matchLength=nondet_u32(); in[i].rep=0; }
  size_t nIn = nondet_size_t(); __CPROVER_assume(nIn>=1 && nIn<=NS);
  size_t blockSize = nondet_size_t(); __CPROVER_assume(blockSize<=N);
  BYTE* src = srcA + SL + (N-blockSize);
  for (int i=0;i<N;i++) srcA[SL+i]=nondet_u8();
  ZSTD_CCtx* z=&cctx;
  z->seqStore.sequencesStart=z->seqStore.sequences=seqs; z->seqStore.litStart=z->seqStore.lit=lits; z->seqStore.llCode=llc; z->seqStore.mlCode=mlc; z->seqStore.ofCode=ofc;
  z->seqStore.maxNbSeq=8; z->seqStore.maxNbLit=N; z->seqStore.longLengthType=ZSTD_llt_none;
  z->blockState.prevCBlock=&prevB; z->blockState.nextCBlock=&nextB;
  prevB.rep[0]=1; prevB.rep[1]=4; prevB.rep[2]=8;
  z->appliedParams.validateSequences=1;
  z->appliedParams.cParams.minMatch = 3 + (nondet_u32()%5);
  z->appliedParams.cParams.windowLog = 10;
  ZSTD_sequencePosition sp = {0,0,0};
  int ext = nondet_int(); __CPROVER_assume(ext==ZSTD_ps_enable||ext==ZSTD_ps_disable);
  size_t r = ZSTD_copySequencesToSeqStoreExplicitBlockDelim(z,&sp,in,nIn,src,blockSize,(ZSTD_paramSwitch_e)ext);
  if (!ZSTD_isError(r)) {
    /* replay the seqStore: every match must start with enough history */
    size_t ns = (size_t)(z->seqStore.sequences - seqs); size_t pos=0; U32 rep[3]={1,4,8};
    CHECK(ns <= NS);
    for (size_t i=0;i<ns && i<NS;i++){
      U32 ll=seqs[i].litLength, ml=seqs[i].mlBase+MINMATCH, ob=seqs[i].offBase; U32 off;
      pos += ll;
      if (ob>ZSTD_REP_NUM) { off=ob-ZSTD_REP_NUM; } else { U32 idx=ob-1+(ll==0); off = idx==3 ? rep[0]-1 : rep[idx]; }
      ZSTD_updateRep(rep, ob, ll==0);
      CHECK(off>=1 && off <= pos);          /* property C17: offset within history at match start (no dict here) */
      CHECK(ml>=3);
      pos += ml;
    }
    CHECK(pos <= blockSize);
  }
#ifdef WITNESS
  CHECK(ZSTD_isError(r) || z->seqStore.sequences==seqs);
#endif
}
