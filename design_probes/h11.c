#define CHECK(c) __CPROVER_assert((c), #c)
#define ZSTD_STATIC_LINKING_ONLY
#include "zstd.h"
size_t nondet_size_t(void);
void harness(void){
  size_t n = nondet_size_t(), b = nondet_size_t(), nb = nondet_size_t();
  __CPROVER_assume(n < (1ULL<<48));
  __CPROVER_assume(b >= 1024 && b <= (128<<10));
  /* nb = max(1, ceil(n/b)) without division */
  __CPROVER_assume(nb >= 1 && nb <= (1ULL<<39));
  __CPROVER_assume(nb*b >= n);
  __CPROVER_assume(nb==1 || (nb-1)*b < n);
  size_t bound = ZSTD_compressBound(n);
  CHECK(!ZSTD_isError(bound));
  CHECK(bound >= n + 3*nb + 18 + 4);
}
