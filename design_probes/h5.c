#define ZSTD_MULTITHREAD 1
#define ZSTD_DEPS_NEED_MALLOC
#include "common/pool.c"
#include <pthread.h>
int nondet_int(void);
_Bool nondet_bool(void);
/* ---- precise pthread model with deadlock detection ---- */
#define MAXT 3
enum { RUN=0, DONE=1, W_COND=2, W_LOCK=3, W_JOIN=4 };
static int t_status[MAXT]; static void* t_obj[MAXT]; static int t_arg[MAXT];
static int n_threads = 1;            /* main = 0 */
static __thread int my_tid_unused;
typedef struct { int waiting; int tokens; } cv_t;
#define MUTEX(m) (*(int*)(m))
#define CV(c) ((cv_t*)(c))
static int deadlock_pred(int me){
  for (int t=0;t<MAXT;t++){ if (t==me || t>=n_threads) continue;
    int s=t_status[t];
    if (s==DONE) continue;
    if (s==W_COND && CV(t_obj[t])->tokens==0) continue;
    if (s==W_LOCK && MUTEX(t_obj[t])!=0) continue;
    if (s==W_JOIN && t_status[t_arg[t]]!=DONE) continue;
    return 0; }
  return 1;
}
static int cur_tid(void);
int pthread_mutex_init(pthread_mutex_t* m, const pthread_mutexattr_t* a){ MUTEX(m)=0; return 0;}
int pthread_mutex_destroy(pthread_mutex_t* m){ return 0;}
int pthread_cond_init(pthread_cond_t* c, const pthread_condattr_t* a){ CV(c)->waiting=0; CV(c)->tokens=0; return 0;}
int pthread_cond_destroy(pthread_cond_t* c){ return 0;}
static __CPROVER_thread_local int tid = 0;
int pthread_mutex_lock(pthread_mutex_t* m){
  __CPROVER_atomic_begin();
  __CPROVER_assume(MUTEX(m)==0); MUTEX(m)=1;
  __CPROVER_atomic_end(); return 0; }
int pthread_mutex_unlock(pthread_mutex_t* m){ __CPROVER_atomic_begin(); assert(MUTEX(m)==1); MUTEX(m)=0; __CPROVER_atomic_end(); return 0;}
int pthread_cond_wait(pthread_cond_t* c, pthread_mutex_t* m){
  __CPROVER_atomic_begin(); assert(MUTEX(m)==1); MUTEX(m)=0; CV(c)->waiting++; t_status[tid]=W_COND; t_obj[tid]=c; __CPROVER_atomic_end();
  if (nondet_bool()) { __CPROVER_atomic_begin(); _Bool d = deadlock_pred(tid) && CV(c)->tokens==0; __CPROVER_atomic_end(); __CPROVER_assume(d); assert(0 && "deadlock"); }
  __CPROVER_atomic_begin(); __CPROVER_assume(CV(c)->tokens>0); CV(c)->tokens--; CV(c)->waiting--; t_status[tid]=RUN; __CPROVER_atomic_end();
  pthread_mutex_lock(m); return 0; }
int pthread_cond_signal(pthread_cond_t* c){ __CPROVER_atomic_begin(); if (CV(c)->tokens < CV(c)->waiting) CV(c)->tokens++; __CPROVER_atomic_end(); return 0;}
int pthread_cond_broadcast(pthread_cond_t* c){ __CPROVER_atomic_begin(); CV(c)->tokens = CV(c)->waiting; __CPROVER_atomic_end(); return 0;}
static void thread_entry(void*(*f)(void*), void* arg, int id){ tid=id; f(arg); __CPROVER_atomic_begin(); t_status[id]=DONE; __CPROVER_atomic_end(); }
int pthread_create(pthread_t* t, const pthread_attr_t* a, void*(*f)(void*), void* arg){
  int id; __CPROVER_atomic_begin(); id=n_threads++; t_status[id]=RUN; __CPROVER_atomic_end(); assert(id<MAXT); *t=(pthread_t)id;
  __CPROVER_ASYNC_1: thread_entry(f,arg,id);
  return 0; }
int pthread_join(pthread_t t, void** r){ int id=(int)t;
  __CPROVER_atomic_begin(); t_status[tid]=W_JOIN; t_arg[tid]=id; __CPROVER_atomic_end();
  if (nondet_bool()) { __CPROVER_atomic_begin(); _Bool d = deadlock_pred(tid) && t_status[id]!=DONE; __CPROVER_atomic_end(); __CPROVER_assume(d); assert(0 && "deadlock"); }
  __CPROVER_atomic_begin(); __CPROVER_assume(t_status[id]==DONE); t_status[tid]=RUN; __CPROVER_atomic_end(); return 0; }
/* ---- harness ---- */
static int executed[2];
static void job(void* p){ int i=(int)(size_t)p; __CPROVER_atomic_begin(); executed[i]++; __CPROVER_atomic_end(); }
void harness(void){
  POOL_ctx* ctx = POOL_create(1, 0);
  __CPROVER_assume(ctx!=0);
  POOL_add(ctx, job, (void*)0);
  POOL_add(ctx, job, (void*)1);
  POOL_joinJobs(ctx);
  assert(executed[0]==1 && executed[1]==1);
  POOL_free(ctx);
#ifdef WITNESS
  assert(0);
#endif
}
