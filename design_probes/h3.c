#include "decompress/zstd_decompress_block.c"
#include <stdlib.h>
size_t nondet_size_t(void);
unsigned char nondet_u8(void);
#ifndef N
#define N 8
#endif
#ifndef CAP
#define CAP 48
#endif
/* stubs for HUF decoders: havoc output, nondet result */
size_t HUF_decompress1X_usingDTable(void* dst, size_t maxDstSize, const void* cSrc, size_t cSrcSize, const HUF_DTable* DTable, int flags){ __CPROVER_assume(0); return 0; }
size_t HUF_decompress4X_usingDTable(void* dst, size_t maxDstSize, const void* cSrc, size_t cSrcSize, const HUF_DTable* DTable, int flags){ __CPROVER_assume(0); return 0;}
size_t HUF_decompress1X1_DCtx_wksp(HUF_DTable* dctx, void* dst, size_t dstSize, const void* cSrc, size_t cSrcSize, void* workSpace, size_t wkspSize, int flags){ __CPROVER_assume(0); return 0;}
size_t HUF_decompress4X_hufOnly_wksp(HUF_DTable* dctx, void* dst, size_t dstSize, const void* cSrc, size_t cSrcSize, void* workSpace, size_t wkspSize, int flags){ __CPROVER_assume(0); return 0;}
size_t FSE_readNCount(short* normalizedCounter, unsigned* maxSVPtr, unsigned* tableLogPtr, const void* rBuffer, size_t rBuffSize){ __CPROVER_assume(0); return 0;}
static ZSTD_DCtx dctx;
void harness(void){
  size_t n = nondet_size_t(); __CPROVER_assume(n <= N);
  size_t cap = nondet_size_t(); __CPROVER_assume(cap <= CAP);
  unsigned char* src = malloc(n); __CPROVER_assume(src!=0);
  unsigned char* dst = malloc(cap); __CPROVER_assume(dst!=0);
  /* minimal dctx state as set by ZSTD_decompressBegin + frame header */
  dctx.isFrameDecompression = 1;
  dctx.fParams.blockSizeMax = 1<<17;
  dctx.fParams.windowSize = 1<<17;
  dctx.prefixStart = dst; dctx.virtualStart = dst; dctx.dictEnd = dst; dctx.previousDstEnd = dst;
  dctx.entropy.rep[0]=1; dctx.entropy.rep[1]=4; dctx.entropy.rep[2]=8;
  dctx.litEntropy = 0; dctx.fseEntropy = 0;
  dctx.LLTptr = dctx.entropy.LLTable; dctx.MLTptr = dctx.entropy.MLTable; dctx.OFTptr = dctx.entropy.OFTable; dctx.HUFptr = dctx.entropy.hufTable;
  size_t r = ZSTD_decompressBlock_internal(&dctx, dst, cap, src, n, not_streaming);
  assert(ZSTD_isError(r) || r <= cap);
#ifdef WITNESS
  assert(ZSTD_isError(r) || r < 5);
#endif
}
