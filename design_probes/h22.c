#define VCHECK(c) __CPROVER_assert((c), #c)
#include "decompress/zstd_decompress.c"
size_t nondet_size_t(void); unsigned char nondet_u8(void); int nondet_int(void); unsigned long long nondet_u64(void);
#define N 16
#define SLACK 64
size_t ZSTD_decompressBlock_internal(ZSTD_DCtx* dctx, void* dst, size_t dstCapacity, const void* src, size_t srcSize, const streaming_operation streaming){ size_t r=nondet_size_t(); __CPROVER_assume(ZSTD_isError(r)||r<=dstCapacity); return r; }
size_t ZSTD_decompressBlock(ZSTD_DCtx* d, void* a, size_t b, const void* c, size_t e){ __CPROVER_assume(0); return 0;}
void ZSTD_checkContinuity(ZSTD_DCtx* dctx, const void* dst, size_t dstSize){ }
XXH64_hash_t ZSTD_XXH64_digest(const XXH64_state_t* s){ return nondet_u64(); }
XXH_errorcode ZSTD_XXH64_update(XXH64_state_t* s, const void* in, size_t len){ return XXH_OK; }
XXH_errorcode ZSTD_XXH64_reset(XXH64_state_t* s, XXH64_hash_t seed){ return XXH_OK; }
static unsigned char A[SLACK+N];
#ifdef STEP
static ZSTD_DCtx dctx; static unsigned char D[SLACK+8];
#endif
void harness(void){
  size_t n=nondet_size_t(); __CPROVER_assume(n<=N);
  for (int i=0;i<N;i++) A[SLACK+i]=nondet_u8();
  const unsigned char* src=A+SLACK+(N-n);
#ifndef STEP
  size_t fs = ZSTD_findFrameCompressedSize(src,n);
  unsigned long long b = ZSTD_decompressBound(src,n);
  size_t m = ZSTD_decompressionMargin(src,n);
  unsigned long long ds = ZSTD_findDecompressedSize(src,n);
  if (!ZSTD_isError(fs)) { VCHECK(fs<=n && fs>=6); }
  if (b!=ZSTD_CONTENTSIZE_ERROR) VCHECK(!ZSTD_isError(fs));
#ifdef WITNESS
  VCHECK(ZSTD_isError(fs));
#endif
#else
  /* one ZSTD_decompressContinue step from an arbitrary stage state */
  ZSTD_DCtx* d=&dctx; d->format=ZSTD_f_zstd1;
  int st=nondet_int(); __CPROVER_assume(st>=ZSTDds_getFrameHeaderSize && st<=ZSTDds_skipFrame); d->stage=(ZSTD_dStage)st;
  d->expected=nondet_size_t(); d->headerSize=nondet_size_t(); d->bType=(blockType_e)(nondet_int()&3); d->rleSize=nondet_size_t();
  d->fParams.blockSizeMax=1<<17; d->fParams.checksumFlag=nondet_int()&1; d->fParams.frameContentSize=nondet_u64(); d->decodedSize=nondet_u64(); d->validateChecksum=nondet_int()&1; d->isFrameDecompression=1;
  /* stage invariant */
  if (st==ZSTDds_getFrameHeaderSize) __CPROVER_assume(d->expected==5);
  if (st==ZSTDds_decodeFrameHeader) __CPROVER_assume(d->headerSize>=6 && d->headerSize<=18 && d->expected==d->headerSize-5);
  if (st==ZSTDds_decodeBlockHeader) __CPROVER_assume(d->expected==3);
  if (st==ZSTDds_checkChecksum) __CPROVER_assume(d->expected==4);
  if (st==ZSTDds_decodeSkippableHeader) __CPROVER_assume(d->expected==3);
  if (st==ZSTDds_decompressBlock||st==ZSTDds_decompressLastBlock) __CPROVER_assume(d->expected>=1 && d->expected<=(1<<17));
  __CPROVER_assume(n==d->expected || ((st==ZSTDds_decompressBlock||st==ZSTDds_decompressLastBlock) && d->bType==bt_raw && n>=1 && n<=d->expected));
  size_t cap=nondet_size_t(); __CPROVER_assume(cap<=8); unsigned char* dst=D+SLACK+(8-cap);
  size_t exp0=d->expected;
  size_t r=ZSTD_decompressContinue(d,dst,cap,src,n);
  if (!ZSTD_isError(r)) {
    VCHECK(r<=cap);
    if (d->stage==ZSTDds_getFrameHeaderSize && d->expected==0)   /* frame declared complete */
      VCHECK(st==ZSTDds_decompressLastBlock || st==ZSTDds_checkChecksum || st==ZSTDds_skipFrame || (st==ZSTDds_decodeBlockHeader /* empty last block */));
  }
#ifdef WITNESS
  VCHECK(ZSTD_isError(r));
#endif
#endif
}
