#define VCHECK(c) __CPROVER_assert((c), #c)
#include "decompress/zstd_decompress.c"
#include <stdlib.h>
size_t nondet_size_t(void); unsigned char nondet_u8(void); unsigned long long nondet_u64(void);
#ifndef N
#define N 12
#endif
#define CAP 6
#define SLACK 64
static size_t g_blk;  /* deterministic ghost so two runs agree */
size_t ZSTD_decompressBlock_internal(ZSTD_DCtx* dctx, void* dst, size_t dstCapacity, const void* src, size_t srcSize, const streaming_operation streaming){
  size_t r = g_blk; if (!ZSTD_isError(r) && r > dstCapacity) return ERROR(dstSize_tooSmall); return r; }
size_t ZSTD_decompressBlock(ZSTD_DCtx* d, void* a, size_t b, const void* c, size_t e){ __CPROVER_assume(0); return 0;}
void ZSTD_checkContinuity(ZSTD_DCtx* dctx, const void* dst, size_t dstSize){ }
static unsigned long long g_dig;
XXH64_hash_t ZSTD_XXH64_digest(const XXH64_state_t* s){ return g_dig; }
XXH_errorcode ZSTD_XXH64_update(XXH64_state_t* s, const void* in, size_t len){ return XXH_OK; }
XXH_errorcode ZSTD_XXH64_reset(XXH64_state_t* s, XXH64_hash_t seed){ return XXH_OK; }
static ZSTD_DCtx dctx;
static unsigned char srcArena[SLACK+N];
static unsigned char dstArena[SLACK+CAP];
static void mini_init(void){ dctx.format=ZSTD_f_zstd1; dctx.dictID=0; dctx.forceIgnoreChecksum=ZSTD_d_validateChecksum; dctx.maxBlockSizeParam=0; dctx.refMultipleDDicts=ZSTD_rmd_refSingleDDict; dctx.ddictSet=0; dctx.processedCSize=0; dctx.isFrameDecompression=1; }
void harness(void){
  size_t n = nondet_size_t(); __CPROVER_assume(n <= N);
  size_t cap = nondet_size_t(); __CPROVER_assume(cap <= CAP);
  g_blk = nondet_size_t(); g_dig = nondet_u64();
  unsigned char* src = srcArena + SLACK + (N-n);
  unsigned char* dst = dstArena + SLACK + (CAP-cap);
  for (int i=0;i<N;i++) srcArena[SLACK+i]=nondet_u8();
  mini_init();
  const void* sp = src; size_t rem = n;
  size_t r = ZSTD_decompressFrame(&dctx, dst, cap, &sp, &rem);
  VCHECK(ZSTD_isError(r) || r <= cap);
  if (!ZSTD_isError(r)) {
     VCHECK(rem <= n); VCHECK((const unsigned char*)sp == src + (n-rem));
     size_t fs = ZSTD_findFrameCompressedSize(src, n);
     VCHECK(!ZSTD_isError(fs) && fs == n - rem);                 /* C06: inspector == bytes consumed */
     unsigned long long bound = ZSTD_decompressBound(src, n-rem);
     VCHECK(bound != ZSTD_CONTENTSIZE_ERROR && bound >= r);
     unsigned long long fcs = ZSTD_getFrameContentSize(src, n);
     if (fcs != ZSTD_CONTENTSIZE_UNKNOWN) VCHECK(fcs == r);
     /* C09: any proper non-empty prefix of exactly this frame fails */
     size_t k = nondet_size_t(); __CPROVER_assume(k>0 && k < n-rem);
     mini_init(); const void* sp2=src; size_t rem2=k;
     size_t r2 = ZSTD_decompressFrame(&dctx, dst, cap, &sp2, &rem2);
     VCHECK(ZSTD_isError(r2));
  }
#ifdef WITNESS
  VCHECK(ZSTD_isError(r));
#endif
}
