#define ZSTD_STATIC_LINKING_ONLY
#include "zstd.h"
#include <stdio.h>
#include <string.h>
int main(){
  char src[400]; for (int i=0;i<400;i++) src[i]="abcde"[i%5];
  ZSTD_Sequence seqs[2] = { {5,0,390,0}, {0,10,0,0} }; /* offset 5, ll 0, ml 390 at pos 0: no history */
  ZSTD_CCtx* c = ZSTD_createCCtx();
  ZSTD_CCtx_setParameter(c, ZSTD_c_validateSequences, 1);
  ZSTD_CCtx_setParameter(c, ZSTD_c_blockDelimiters, ZSTD_sf_explicitBlockDelimiters);
  char dst[600];
  size_t r = ZSTD_compressSequences(c, dst, sizeof dst, seqs, 2, src, 400);
  printf("compressSequences: %zu %s\n", r, ZSTD_isError(r)?ZSTD_getErrorName(r):"ok");
  if (!ZSTD_isError(r)) { char out[640]; size_t d = ZSTD_decompress(out, sizeof out, dst, r); printf("decompress: %zu %s\n", d, ZSTD_isError(d)?ZSTD_getErrorName(d):"ok"); }
  /* control: valid parse ll 5 */
  ZSTD_Sequence seqs2[2] = { {5,5,385,0}, {0,10,0,0} };
  r = ZSTD_compressSequences(c, dst, sizeof dst, seqs2, 2, src, 400);
  printf("control compressSequences: %zu %s\n", r, ZSTD_isError(r)?ZSTD_getErrorName(r):"ok");
  if (!ZSTD_isError(r)) { char out[640]; size_t d = ZSTD_decompress(out, sizeof out, dst, r); printf("control decompress: %zu %s eq=%d\n", d, ZSTD_isError(d)?ZSTD_getErrorName(d):"ok", !memcmp(out,src,400)); }
  return 0;
}
