#include <stdlib.h>
int nondet_int(void);
int main(void){
  int x = nondet_int();
  char* p = malloc(4); 
  char* q = p + 6;          /* oob formation */
  int c = q > p + 4;        /* relation with oob pointer */
  int y = x & 3;
  __CPROVER_assert(y < 4, "true assertion after oob");
  if (x == 7) { char z = p[5]; (void)z; }   /* real oob read */
  return c;
}
