#include <stdlib.h>
char *a, *b;
int nondet_int(void);
int main(void){
  long d = a - b;           /* NULL - NULL */
  int x = nondet_int();
  int y = x & 3;
  __CPROVER_assert(y < 4, "true assertion after null-null");
  __CPROVER_assert(x != 5, "witness after null-null");
  return 0;
}
