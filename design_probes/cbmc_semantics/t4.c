#include <stdlib.h>
char *a, *b;
int nondet_int(void);
int main(void){
  int x = nondet_int();
  long d = 0;
  if (x > 0) d = a - b;           /* NULL - NULL on some paths */
  int y = x & 3;
  __CPROVER_assert(y < 4, "true assertion after partial null-null");
  __CPROVER_assert(x != 5, "witness after");
  __CPROVER_assert(x != -5, "witness after, path without");
  return 0;
}
