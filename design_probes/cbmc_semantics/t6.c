int main(void){ int i, s = 0; for (i = 0; i < 6; i++) s += i; __CPROVER_assert(s == 15, "sum"); return 0; }
