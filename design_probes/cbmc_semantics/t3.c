#include <stdlib.h>
int nondet_int(void);
int main(void){
  int x = nondet_int();
  char* p = malloc(4); 
  char* q = p + 9;          /* oob formation */
  int c = q > p;
  int y = x & 3;
  __CPROVER_assert(y < 4, "true assertion after oob");
  __CPROVER_assert(x != 5, "witness after oob");
  return 0;
}
