#include <stdlib.h>
char *a, *b;
int nondet_int(void);
int main(void){
  long d = a - b;           /* NULL - NULL */
  int x = nondet_int();
  __CPROVER_assert(x != 5, "witness after null-null");
  char* p = malloc(4); 
  char* q = p + 9;          /* oob formation */
  int c = q > p;
  __CPROVER_assert(x != 6, "witness after oob");
  return (int)d + c;
}
