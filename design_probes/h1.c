#define ZSTD_STATIC_LINKING_ONLY
#include "zstd.h"
#include <stdlib.h>
#include <assert.h>
size_t nondet_size_t(void);
int nondet_int(void);
void harness(void){
  size_t n = nondet_size_t();
  __CPROVER_assume(n <= 18);
  unsigned char *src = malloc(n);
  __CPROVER_assume(src != 0);
  ZSTD_frameHeader zfh;
  int fmt = nondet_int(); __CPROVER_assume(fmt==0||fmt==1);
  size_t r = ZSTD_getFrameHeader_advanced(&zfh, src, n, (ZSTD_format_e)fmt);
  if (!ZSTD_isError(r) && r==0 && zfh.frameType==ZSTD_frame) {
    assert(zfh.headerSize <= n);
    assert(zfh.blockSizeMax <= (1<<17));
    assert(zfh.windowSize <= (1ULL<<31)+7*(1ULL<<28) || zfh.windowSize==zfh.frameContentSize);
  }
  if (!ZSTD_isError(r) && r>0) assert(r > n && r <= 18);
#ifdef WITNESS
  assert(0);
#endif
}
