#define CHECK(c) __CPROVER_assert((c), #c)
#define ZSTD_MULTITHREAD 1
#define ZSTD_DEPS_NEED_MALLOC
#include "common/pool.c"
#include <pthread.h>
size_t nondet_size_t(void); int nondet_int(void);
/* ---- pthread monitor (sequential, rely/guarantee) ---- */
static int held, nlocks, sig_push, sig_pop, waits;
static POOL_ctx* G;
static void havoc_rely(void);
int pthread_mutex_lock(pthread_mutex_t* m){ CHECK(!held); held=1; nlocks++; if (nlocks>=3) __CPROVER_assume(0); return 0; }  /* cut 2nd worker iteration */
int pthread_mutex_unlock(pthread_mutex_t* m){ CHECK(held); held=0; return 0; }
int pthread_cond_wait(pthread_cond_t* c, pthread_mutex_t* m){ CHECK(held); waits++; havoc_rely(); return 0; }
int pthread_cond_signal(pthread_cond_t* c){ if (c==&G->queuePushCond) sig_push++; else sig_pop++; return 0; }
int pthread_cond_broadcast(pthread_cond_t* c){ if (c==&G->queuePushCond) sig_push+=100; else sig_pop+=100; return 0; }
/* ---- ghost job accounting ---- */
static int ran[4];
static void job(void* p){ size_t i=(size_t)p; CHECK(!held); if (i<4) ran[i]++; }
static int inv(POOL_ctx* c){
  return c->queueSize>=1 && c->queueSize<=3 && c->queueHead<c->queueSize && c->queueTail<c->queueSize
      && c->threadLimit>=1 && c->threadLimit<=c->threadCapacity && c->threadCapacity<=3 && c->numThreadsBusy<=c->threadCapacity
      && (c->queueEmpty ? c->queueHead==c->queueTail : 1) && (c->queueSize>1 ? (c->queueEmpty == (c->queueHead==c->queueTail)) : 1);
}
static size_t qlen(POOL_ctx* c){ return c->queueEmpty?0 : (c->queueSize==1?1 : (c->queueTail + c->queueSize - c->queueHead)%c->queueSize); }
static void havoc_rely(void){ /* other threads may do anything that preserves inv */
  G->queueHead=nondet_size_t(); G->queueTail=nondet_size_t(); G->queueEmpty=nondet_int()&1; G->numThreadsBusy=nondet_size_t(); G->shutdown |= nondet_int()&1; G->threadLimit=nondet_size_t();
  __CPROVER_assume(inv(G));
  for (size_t i=0;i<3;i++){ G->queue[i].function=job; G->queue[i].opaque=(void*)(size_t)(nondet_int()&3); }
}
static POOL_ctx ctxS; static POOL_job q[3];
void harness(void){
  G=&ctxS; G->queue=q; G->queueSize=nondet_size_t(); G->threadCapacity=nondet_size_t(); G->shutdown=nondet_int()&1;
  havoc_rely();
  int which = nondet_int();
  if (which==0) {           /* POOL_tryAdd */
    size_t len0=qlen(G); size_t busy0=G->numThreadsBusy; int sd=G->shutdown;
    int r = POOL_tryAdd(G, job, (void*)2);
    CHECK(inv(G)); CHECK(!held);
    if (r==0) { CHECK(qlen(G)==len0); CHECK(sig_pop==0); }
    else if (!sd) { CHECK(qlen(G)==len0+1); CHECK(sig_pop>=1); CHECK(G->queue[(G->queueTail+G->queueSize-1)%G->queueSize].opaque==(void*)2); }
    CHECK(G->numThreadsBusy==busy0);
  } else {                  /* one worker iteration */
    size_t len0; void* r;
    r = POOL_thread(G);     /* returns only on shutdown; otherwise cut by the monitor at the 3rd lock */
    CHECK(!held); CHECK(G->shutdown); 
  }
#ifdef WITNESS
  CHECK(which!=0);
#endif
}
