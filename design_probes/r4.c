#include "decompress/zstd_decompress_block.c"
#include "compress/zstd_compress_sequences.h"
#include <stdio.h>
#include <stdlib.h>
int main(){
  seqDef seqs[2] = {{7745,24576,32770},{129,64,11}};
  BYTE ll[2], ml[2], of[2];
  seqStore_t ss; memset(&ss,0,sizeof ss);
  size_t nbSeq=2;
  ss.sequencesStart=seqs; ss.sequences=seqs+nbSeq; ss.llCode=ll; ss.mlCode=ml; ss.ofCode=of; ss.longLengthType=ZSTD_llt_none;
  int longOffsets = ZSTD_seqToCodes(&ss);
  static FSE_CTable ctLL[FSE_CTABLE_SIZE_U32(LLFSELog, MaxLL)], ctML[FSE_CTABLE_SIZE_U32(MLFSELog, MaxML)], ctOF[FSE_CTABLE_SIZE_U32(OffFSELog, MaxOff)];
  static U32 wksp[2000];
  size_t e;
  e = FSE_buildCTable_wksp(ctLL, LL_defaultNorm, MaxLL, LL_defaultNormLog, wksp, sizeof wksp); 
  e = FSE_buildCTable_wksp(ctML, ML_defaultNorm, MaxML, ML_defaultNormLog, wksp, sizeof wksp);
  e = FSE_buildCTable_wksp(ctOF, OF_defaultNorm, DefaultMaxOff, OF_defaultNormLog, wksp, sizeof wksp);
  BYTE out[64];
  size_t sz = ZSTD_encodeSequences(out, sizeof out, ctML, ml, ctOF, of, ctLL, ll, seqs, nbSeq, longOffsets, 0);
  printf("sz=%zu err=%d codes ll %d %d ml %d %d of %d %d\n", sz, ERR_isError(sz), ll[0],ll[1],ml[0],ml[1],of[0],of[1]);
  seqState_t st;
  st.prevOffset[0]=1; st.prevOffset[1]=4; st.prevOffset[2]=8;
  size_t r = BIT_initDStream(&st.DStream, out, sz);
  ZSTD_initFseState(&st.stateLL,&st.DStream, LL_defaultDTable);
  ZSTD_initFseState(&st.stateOffb,&st.DStream, OF_defaultDTable);
  ZSTD_initFseState(&st.stateML,&st.DStream, ML_defaultDTable);
  for (size_t i=0;i<nbSeq;i++){
     seq_t s = ZSTD_decodeSequence(&st, ZSTD_lo_isRegularOffset, i==nbSeq-1);
     printf("seq %zu: ll %zu ml %zu off %zu\n", i, s.litLength, s.matchLength, s.offset);
  }
  printf("end=%d\n", BIT_endOfDStream(&st.DStream));
}
