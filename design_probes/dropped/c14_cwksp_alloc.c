/* @harness c14.cwksp_alloc
 * @props C14 C13
 * @tier quick
 * @functions ZSTD_cwksp_init ZSTD_cwksp_reserve_object ZSTD_cwksp_reserve_aligned_init_once ZSTD_cwksp_reserve_aligned64 ZSTD_cwksp_reserve_table ZSTD_cwksp_reserve_buffer ZSTD_cwksp_reserve_internal ZSTD_cwksp_reserve_internal_buffer_space ZSTD_cwksp_internal_advance_phase ZSTD_cwksp_available_space ZSTD_cwksp_used ZSTD_cwksp_sizeof ZSTD_cwksp_clear
 * @bounds the bump allocator every context lives in, on caller-provided memory: workspace of ANY size 128..384 bytes starting at any pointer-aligned address (all 8 alignments modulo 64), then ANY sequence of NOPS (4 quick, 6 thorough) reservations in the documented phase order (objects, then init-once / aligned / tables, then buffers), each of any size 0..160 bytes (objects: multiples of 8, tables: multiples of 64, as their callers guarantee), optionally a ZSTD_cwksp_clear between two of them
 * @bounds decided: every region handed out lies inside the caller's block, has the promised alignment (8 for objects, 64 for tables / aligned / init-once), and overlaps no region handed out since the last clear nor any object ever; a request fails (NULL + sticky failure flag) instead of growing, and only when the block really lacks the room (aligned size + the documented 128 bytes of alignment slack); the reported size equals the block size and the reported use covers everything handed out
 * @assume memset of init-once regions is range-checked only (content not an obligation here)
 * @outside requests larger than the distance to the start of the address space (the downward pointer arithmetic `allocStart - bytes` is not overflow-checked in the code: callers pass sizes bounded by parameter limits); the dynamic (malloc-backed) growth path (c13.cwksp.resize_fail)
 * @link lib/common/zstd_common.c lib/common/error_private.c
 * @mem check
 * @cbmc --unwind 8
 * @timeout 600
 * @memgb 8
 * @instance n3 backend=cadical -DNOPS=3
 * @instance n4 tier=thorough backend=cadical timeout=2400 -DNOPS=4
 * @instance n5 tier=thorough backend=cadical timeout=3000 memgb=14 -DNOPS=5
 */
#include "v.h"
#include <string.h>
#include "common/zstd_internal.h"
#include "compress/zstd_cwksp.h"

#ifndef NOPS
#define NOPS 4
#endif
#define FRONT 256
#define WMAX 384
static BYTE g_arena[FRONT + 64 + WMAX + 64] __attribute__((aligned(64)));

void harness(void)
{
    ZSTD_cwksp ws; size_t const size = nondet_size(); unsigned const mis = nondet_uint();
    BYTE* start; size_t off[NOPS], len[NOPS]; int live[NOPS], isObj[NOPS]; int i, k; int lastPhase = 0;
    int const clearAt = nondet_int();
    VASSUME(size >= 128 && size <= WMAX && mis < 8);      /* every real workspace holds at least a context object */
    start = g_arena + FRONT + 8 * mis;
    ZSTD_cwksp_init(&ws, start, size, ZSTD_cwksp_static_alloc);
    VCHECKM(ZSTD_cwksp_sizeof(&ws) == size && ZSTD_cwksp_used(&ws) < 64 && !ZSTD_cwksp_reserve_failed(&ws), "a fresh workspace reports the block size and no use beyond the end-alignment slack");
    for (i = 0; i < NOPS; i++) {
        unsigned const kind = nondet_uint(); size_t const bytes = nondet_size(); void* p; size_t align, rounded, avail;
        int const phase = (kind == 0) ? 0 : (kind == 4) ? 3 : (kind == 3) ? lastPhase > 1 ? lastPhase : 1 : (int)kind;     /* tables: any time after the objects */
        VASSUME(kind <= 4 && bytes <= 160 && phase >= lastPhase);
        if (kind == 0) VASSUME(bytes % 8 == 0);
        if (kind == 3) VASSUME(bytes % 64 == 0);
        lastPhase = phase;
        if (i == clearAt) {
            ZSTD_cwksp_clear(&ws);
            for (k = 0; k < NOPS; k++) if (k < i && !isObj[k]) live[k] = 0;      /* tables and buffers are recycled, objects stay */
        }
        avail = ZSTD_cwksp_available_space(&ws);
        {   size_t const afterObjects = (size_t)((BYTE*)ws.workspaceEnd - (BYTE*)ws.objectEnd); int const phase0 = (int)ws.phase;
        switch (kind) {
        case 0: p = ZSTD_cwksp_reserve_object(&ws, bytes); align = 8; rounded = bytes; break;
        case 1: p = ZSTD_cwksp_reserve_aligned_init_once(&ws, bytes); align = 64; rounded = (bytes + 63) & ~(size_t)63; break;
        case 2: p = ZSTD_cwksp_reserve_aligned64(&ws, bytes); align = 64; rounded = (bytes + 63) & ~(size_t)63; break;
        case 3: p = ZSTD_cwksp_reserve_table(&ws, bytes); align = 64; rounded = bytes; break;
        default: p = ZSTD_cwksp_reserve_buffer(&ws, bytes); align = 1; rounded = bytes; break;
        }
        live[i] = 0; isObj[i] = (kind == 0); off[i] = 0; len[i] = 0;
        if (p != NULL && rounded > 0) {
            size_t const o = (size_t)((BYTE*)p - start);
            VCHECKM((BYTE*)p >= start && o + rounded <= size, "a reserved region lies inside the caller's block");
            VCHECKM(((size_t)((BYTE*)p - g_arena) & (align - 1)) == 0, "a reserved region has the promised alignment");
            for (k = 0; k < NOPS; k++) if (k < i && live[k]) VCHECKM(o + rounded <= off[k] || off[k] + len[k] <= o, "a reserved region overlaps nothing handed out before (since the last clear; objects: ever)");
            live[i] = 1; off[i] = o; len[i] = rounded;
        } else if (rounded > 0) {
            /* the one refusal that does not raise the flag: the 64-byte alignment padding of the first non-object reservation does not fit */
            VCHECKM(ZSTD_cwksp_reserve_failed(&ws) || (kind != 0 && phase0 == (int)ZSTD_cwksp_alloc_objects && afterObjects < 64), "a refused request sets the sticky failure flag (except when not even the table alignment padding fits)");
            VCHECKM(rounded + ZSTD_cwksp_slack_space_required() > avail || (kind == 0 && lastPhase != 0), "a request is refused only when the block lacks the room (aligned size + documented alignment slack)");
        }
        VCHECKM(ZSTD_cwksp_sizeof(&ws) == size && ZSTD_cwksp_used(&ws) <= size, "reported size is the block size; reported use never exceeds it");
        }
    }
    {   size_t sum = 0; for (k = 0; k < NOPS; k++) if (live[k]) sum += len[k];
        VCHECKM(ZSTD_cwksp_used(&ws) >= sum, "the reported use covers everything handed out and still live");
    }
    VWITNESS(live[0] && live[1] && live[2] && isObj[0] && !isObj[1] && clearAt == 2);
    VWITNESS(ZSTD_cwksp_reserve_failed(&ws) && live[0]);
    VWITNESS(live[NOPS - 1] && len[NOPS - 1] == 160 && mis == 3);
}
