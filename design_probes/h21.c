#define VCHECK(c) __CPROVER_assert((c), #c)
#include "decompress/zstd_decompress_block.c"
size_t nondet_size_t(void); unsigned char nondet_u8(void);
static BYTE A[128], R[128];
void harness(void){
  for (int i=0;i<128;i++){ BYTE b=nondet_u8(); A[i]=b; R[i]=b; }
  size_t off = nondet_size_t(); __CPROVER_assume(off>=1 && off<=16);
  size_t len = nondet_size_t(); __CPROVER_assume(len>=8 && len<=24);
  BYTE* op = A+64; const BYTE* ip = op - off;
  BYTE* o2=op; const BYTE* i2=ip;
  if (off < 8) {   /* mirrors ZSTD_execSequence tail: overlapCopy8 then wildcopy(overlap) */
    ZSTD_overlapCopy8(&o2,&i2,off);
    VCHECK(o2==op+8); VCHECK(o2 - i2 >= 8);
    if (len>8) ZSTD_wildcopy(o2,i2,(ptrdiff_t)len-8,ZSTD_overlap_src_before_dst);
  } else {
    ZSTD_wildcopy(op,ip,(ptrdiff_t)len, off>=16?ZSTD_no_overlap:ZSTD_overlap_src_before_dst);
  }
  for (size_t i=0;i<24;i++) if (i<len) R[64+i]=R[64+i-off];
  for (size_t i=0;i<24;i++) if (i<len) VCHECK(A[64+i]==R[64+i]);
  for (size_t i=0;i<64;i++) VCHECK(A[i]==R[i]);
  /* wildcopy may scribble up to WILDCOPY_OVERLENGTH past len, never further */
  for (size_t i=64+24+32;i<128;i++) VCHECK(A[i]==R[i]);
}
