#define CHECK(c) __CPROVER_assert((c), #c)
#include <stdlib.h>
#include <string.h>
#include "zstdseek_compress.c"
size_t nondet_size_t(void); unsigned nondet_u32(void); int nondet_int(void);
#define NF 2
#define TOT (8+12*NF+9)
#define SL 64
static unsigned char A[SL+TOT+8];
void harness(void){
  ZSTD_frameLog fl; 
  int ck = nondet_int()&1;
  size_t e = ZSTD_seekable_frameLog_allocVec(&fl); __CPROVER_assume(!ZSTD_isError(e));
  fl.checksumFlag = ck; fl.size=0; fl.seekTablePos=0; fl.seekTableIndex=0;
  unsigned cs[NF], ds[NF], xs[NF]; unsigned n = nondet_u32(); __CPROVER_assume(n<=NF);
  for (unsigned i=0;i<NF;i++) if (i<n){ cs[i]=nondet_u32(); ds[i]=nondet_u32(); xs[i]=nondet_u32(); size_t r=ZSTD_seekable_logFrame(&fl,cs[i],ds[i],xs[i]); CHECK(!ZSTD_isError(r)); }
  size_t total = 8 + (ck?12:8)*n + 9;
  unsigned char* out = A+SL; size_t pos=0; size_t ret=1;
  for (int call=0; call<8 && ret!=0; call++){
     size_t room = nondet_size_t(); __CPROVER_assume(room<=13 && pos+room<=TOT);
     if (call==7) room = TOT-pos;
     ZSTD_outBuffer ob = { out+pos, room, 0 };
     ret = ZSTD_seekable_writeSeekTable(&fl,&ob);
     CHECK(!ZSTD_isError(ret)); CHECK(ob.pos<=room);
     pos += ob.pos;
     if (ret!=0) CHECK(ret == total - pos);
  }
  if (ret==0) {
    CHECK(pos==total);
    CHECK(MEM_readLE32(out)==(ZSTD_MAGIC_SKIPPABLE_START|0xE));
    CHECK(MEM_readLE32(out+4)==total-8);
    for (unsigned i=0;i<NF;i++) if (i<n){ size_t o=8+(ck?12:8)*i; CHECK(MEM_readLE32(out+o)==cs[i]); CHECK(MEM_readLE32(out+o+4)==ds[i]); if (ck) CHECK(MEM_readLE32(out+o+8)==xs[i]); }
    CHECK(MEM_readLE32(out+total-9)==n); CHECK(out[total-5]==(unsigned char)(ck<<7)); CHECK(MEM_readLE32(out+total-4)==ZSTD_SEEKABLE_MAGICNUMBER);
  }
#ifdef WITNESS
  CHECK(ret!=0);
#endif
}
