#define CHECK(c) __CPROVER_assert((c), #c)
#include "decompress/zstd_decompress.c"
#include <stdlib.h>
size_t nondet_size_t(void);
unsigned char nondet_u8(void);
unsigned long long nondet_u64(void);
#ifndef N
#define N 16
#endif
#ifndef CAP
#define CAP 8
#endif
#define SLACK 64
/* stubs: compressed blocks decode to nondet result (contract: error or <= dstCapacity) */
size_t ZSTD_decompressBlock_internal(ZSTD_DCtx* dctx, void* dst, size_t dstCapacity, const void* src, size_t srcSize, const streaming_operation streaming){
  size_t r = nondet_size_t(); __CPROVER_assume(ZSTD_isError(r) || r <= dstCapacity); return r; }
size_t ZSTD_decompressBlock(ZSTD_DCtx* d, void* a, size_t b, const void* c, size_t e){ __CPROVER_assume(0); return 0;}
void ZSTD_checkContinuity(ZSTD_DCtx* dctx, const void* dst, size_t dstSize){ }
size_t ZSTD_getcBlockSize(const void* src, size_t srcSize, blockProperties_t* bpPtr);
/* digest as uninterpreted value */
XXH64_hash_t ZSTD_XXH64_digest(const XXH64_state_t* s){ return nondet_u64(); }
XXH_errorcode ZSTD_XXH64_update(XXH64_state_t* s, const void* in, size_t len){ return XXH_OK; }
XXH_errorcode ZSTD_XXH64_reset(XXH64_state_t* s, XXH64_hash_t seed){ return XXH_OK; }
static ZSTD_DCtx dctx;
static unsigned char srcArena[SLACK+N];
static unsigned char dstArena[SLACK+CAP];
void harness(void){
  size_t n = nondet_size_t(); __CPROVER_assume(n <= N);
  size_t cap = nondet_size_t(); __CPROVER_assume(cap <= CAP);
  unsigned char* src = srcArena + SLACK + (N-n);   /* tail-aligned: over-reads hit object end */
  unsigned char* dst = dstArena + SLACK + (CAP-cap);
  for (int i=0;i<N;i++) srcArena[SLACK+i]=nondet_u8();
  ZSTD_initDCtx_internal(&dctx);
  size_t r = ZSTD_decompressDCtx(&dctx, dst, cap, src, n);
  CHECK(ZSTD_isError(r) || r <= cap);
  /* truncation: if whole buffer decodes OK, every proper non-empty prefix must fail */
  if (!ZSTD_isError(r) && ZSTD_findFrameCompressedSize(src, n)==n) {
     size_t k = nondet_size_t(); __CPROVER_assume(k>0 && k<n);
     ZSTD_initDCtx_internal(&dctx);
     size_t r2 = ZSTD_decompressDCtx(&dctx, dst, cap, src, k);
     CHECK(ZSTD_isError(r2));
     size_t fs = ZSTD_findFrameCompressedSize(src, n);
     CHECK(!ZSTD_isError(fs) && fs <= n);
  }
#ifdef WITNESS
  CHECK(ZSTD_isError(r));
#endif
}
