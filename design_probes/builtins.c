#include <string.h>
void *__builtin_memcpy(void *d, const void *s, size_t n){ return memcpy(d,s,n);}
void *__builtin_memmove(void *d, const void *s, size_t n){ return memmove(d,s,n);}
void *__builtin_memset(void *d, int c, size_t n){ return memset(d,c,n);}
