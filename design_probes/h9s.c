#define CHECK(c) __CPROVER_assert((c), #c)
#include "decompress/zstd_decompress_block.c"
#include <stdlib.h>
size_t nondet_size_t(void);
unsigned char nondet_u8(void);
#define SLACK 64
#ifndef CAP
#define CAP 32
#endif
#define LITN 16
static BYTE dstArena[SLACK+CAP], ref[CAP], litArena[SLACK+LITN+WILDCOPY_OVERLENGTH];
void harness(void){
  /* dst object: [SLACK | hist (h bytes) | op ... oend] tail-aligned */
  size_t cap = nondet_size_t(); __CPROVER_assume(cap <= CAP);
  size_t h = nondet_size_t(); __CPROVER_assume(h <= cap);        /* bytes already produced (prefix history) */
  BYTE* base = dstArena + SLACK + (CAP-cap);
  BYTE* op = base + h; BYTE* oend = base + cap;
  for (int i=0;i<CAP;i++){ BYTE b=nondet_u8(); dstArena[SLACK+i]=b; ref[i]=b; }
  size_t litAvail = nondet_size_t(); __CPROVER_assume(litAvail <= LITN);
  BYTE* lit = litArena + SLACK; for (int i=0;i<LITN+WILDCOPY_OVERLENGTH;i++) lit[i]=nondet_u8();
  const BYTE* litPtr = lit; const BYTE* litLimit = lit + litAvail;
  seq_t s; s.litLength = nondet_size_t(); s.matchLength = nondet_size_t(); s.offset = nondet_size_t();
  __CPROVER_assume(s.litLength <= 16 && s.matchLength <= 20 && s.matchLength>=1);
  size_t r = ZSTD_execSequence(op, oend, s, &litPtr, litLimit, base, base, base);
  if (!ZSTD_isError(r)) {
    CHECK(r == s.litLength + s.matchLength);
    CHECK(r <= (size_t)(oend-op));
    CHECK(s.litLength <= litAvail);
    CHECK(s.offset >= 1 && s.offset <= h + s.litLength);
    /* reference LZ copy on ref[] (ref aligned with base at CAP-cap) */
    size_t o = (CAP-cap) + h;
    for (size_t i=0;i<s.litLength;i++) ref[o+i]=lit[i];
    o += s.litLength;
    for (size_t i=0;i<s.matchLength;i++) ref[o+i]=ref[o+i-s.offset];
    for (size_t i=0;i<r;i++) CHECK(op[i]==ref[(CAP-cap)+h+i]);
    for (size_t i=0;i<h;i++) CHECK(base[i]==ref[(CAP-cap)+i]);      /* history untouched */
    CHECK(litPtr == lit + s.litLength);
  }
#ifdef WITNESS
  CHECK(ZSTD_isError(r));
#endif
}
