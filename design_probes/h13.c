#define CHECK(c) __CPROVER_assert((c), #c)
#include "decompress/zstd_decompress_block.c"
#include <stdlib.h>
size_t nondet_size_t(void); int nondet_int(void); unsigned char nondet_u8(void);
/* HUF stubs: contract = may write dst[0..dstSize) , may read cSrc[0..cSrcSize) */
static size_t huf_stub(void* dst, size_t dstSize, const void* cSrc, size_t cSrcSize){
  CHECK(__CPROVER_w_ok(dst,dstSize)); CHECK(__CPROVER_r_ok(cSrc,cSrcSize)); return nondet_size_t(); }
size_t HUF_decompress1X_usingDTable(void* dst, size_t maxDstSize, const void* cSrc, size_t cSrcSize, const HUF_DTable* DTable, int flags){ return huf_stub(dst,maxDstSize,cSrc,cSrcSize); }
size_t HUF_decompress4X_usingDTable(void* dst, size_t maxDstSize, const void* cSrc, size_t cSrcSize, const HUF_DTable* DTable, int flags){ return huf_stub(dst,maxDstSize,cSrc,cSrcSize);}
size_t HUF_decompress1X1_DCtx_wksp(HUF_DTable* dctx, void* dst, size_t dstSize, const void* cSrc, size_t cSrcSize, void* workSpace, size_t wkspSize, int flags){ return huf_stub(dst,dstSize,cSrc,cSrcSize);}
size_t HUF_decompress4X_hufOnly_wksp(HUF_DTable* dctx, void* dst, size_t dstSize, const void* cSrc, size_t cSrcSize, void* workSpace, size_t wkspSize, int flags){ return huf_stub(dst,dstSize,cSrc,cSrcSize);}
static ZSTD_DCtx dctx;
#define SL 64
void harness(void){
  size_t n = nondet_size_t(); __CPROVER_assume(n <= (1<<17));
  size_t cap = nondet_size_t(); __CPROVER_assume(cap <= (1<<18)+200);
  unsigned char* srcA = malloc(SL+n); unsigned char* dstA = malloc(SL+cap); __CPROVER_assume(srcA && dstA);
  unsigned char* src=srcA+SL; unsigned char* dst=dstA+SL;
  dctx.isFrameDecompression = nondet_int()&1;
  dctx.fParams.blockSizeMax = nondet_int(); __CPROVER_assume(dctx.fParams.blockSizeMax>=1 && dctx.fParams.blockSizeMax <= (1<<17));
  dctx.litEntropy = nondet_int()&1; dctx.ddictIsCold = nondet_int()&1;
  dctx.HUFptr = dctx.entropy.hufTable;
  int streaming = nondet_int()&1; if (!dctx.isFrameDecompression) streaming = 0;
  size_t r = ZSTD_decodeLiteralsBlock(&dctx, src, n, dst, cap, (streaming_operation)streaming);
  if (!ZSTD_isError(r)) {
    CHECK(r <= n);
    CHECK(dctx.litSize <= ZSTD_blockSizeMax(&dctx));
    /* literal window readable for litSize (+ wildcopy slack handled by execSequence's own checks) */
    CHECK(__CPROVER_r_ok(dctx.litPtr, dctx.litSize));
    if (dctx.litBufferLocation == ZSTD_split) CHECK(dctx.litBufferEnd <= dst + ZSTD_blockSizeMax(&dctx));
  }
#ifdef WITNESS
  CHECK(ZSTD_isError(r) || dctx.litBufferLocation != ZSTD_split);
#endif
}
