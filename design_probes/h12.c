#define CHECK(c) __CPROVER_assert((c), #c)
#include "compress/zstd_compress.c"
size_t nondet_size_t(void); int nondet_int(void); unsigned char nondet_u8(void);
/* ghost log of calls to the block compressor */
static size_t g_handed, g_produced; static int g_ended;
static size_t stub_compress(ZSTD_CCtx* c, void* dst, size_t cap, const void* src, size_t n, int end){
  CHECK(__CPROVER_r_ok(src, n));
  size_t r = nondet_size_t();
  if (cap >= ZSTD_compressBound(n)) __CPROVER_assume(!ZSTD_isError(r));
  __CPROVER_assume(ZSTD_isError(r) || (r <= cap));
  if (!ZSTD_isError(r)) { CHECK(__CPROVER_w_ok(dst, r)); g_handed += n; g_produced += r; g_ended = end; }
  return r; }
#define ZSTD_compressEnd_public(c,d,dc,s,n) stub_compress(c,d,dc,s,n,1)
#define ZSTD_compressContinue_public(c,d,dc,s,n) stub_compress(c,d,dc,s,n,0)
/* re-include only the function under test with stubs in place: we textually extract it */
#include "cstream_generic.inc"
static ZSTD_CCtx cctx;
#define SL 64
void harness(void){
  ZSTD_CCtx* z=&cctx;
  size_t inSz=nondet_size_t(), outSz=nondet_size_t(); __CPROVER_assume(inSz<=(1<<18) && outSz<=(1<<18));
  char* inArena = malloc(SL+inSz), *outArena = malloc(SL+outSz); __CPROVER_assume(inArena&&outArena);
  ZSTD_inBuffer in={inArena+SL,inSz,nondet_size_t()}; ZSTD_outBuffer out={outArena+SL,outSz,nondet_size_t()};
  __CPROVER_assume(in.pos<=in.size && out.pos<=out.size);
  /* arbitrary state under invariant I_c */
  z->appliedParams.inBufferMode = nondet_int()?ZSTD_bm_buffered:ZSTD_bm_stable;
  z->appliedParams.outBufferMode = nondet_int()?ZSTD_bm_buffered:ZSTD_bm_stable;
  z->blockSize=nondet_size_t(); __CPROVER_assume(z->blockSize>=1 && z->blockSize<=(1<<17));
  z->inBuffSize=nondet_size_t(); z->outBuffSize=nondet_size_t();
  __CPROVER_assume(z->inBuffSize>=z->blockSize && z->inBuffSize<=(1<<19));
  __CPROVER_assume(z->outBuffSize==ZSTD_compressBound(z->blockSize)+1);
  z->inBuff = malloc(z->inBuffSize); z->outBuff = malloc(z->outBuffSize); __CPROVER_assume(z->inBuff && z->outBuff);
  z->inToCompress=nondet_size_t(); z->inBuffPos=nondet_size_t(); z->inBuffTarget=nondet_size_t();
  __CPROVER_assume(z->inToCompress<=z->inBuffPos && z->inBuffPos<=z->inBuffTarget && z->inBuffTarget<=z->inBuffSize && z->inBuffTarget - z->inToCompress <= z->blockSize);
  z->outBuffContentSize=nondet_size_t(); z->outBuffFlushedSize=nondet_size_t();
  __CPROVER_assume(z->outBuffFlushedSize<=z->outBuffContentSize && z->outBuffContentSize<=z->outBuffSize);
  z->streamStage = nondet_int()?zcss_load:zcss_flush;
  if (z->streamStage==zcss_load) __CPROVER_assume(z->outBuffContentSize==0 && z->outBuffFlushedSize==0);
  if (z->streamStage==zcss_flush) __CPROVER_assume(z->appliedParams.outBufferMode==ZSTD_bm_buffered);
  z->frameEnded = 0; z->stableIn_notConsumed = 0;
  if (z->appliedParams.inBufferMode==ZSTD_bm_stable){ z->stableIn_notConsumed=nondet_size_t(); __CPROVER_assume(z->stableIn_notConsumed<=in.pos && z->stableIn_notConsumed < z->blockSize); }
  int mode = nondet_int(); __CPROVER_assume(mode>=0 && mode<=2);
  size_t ip0=in.pos, op0=out.pos;
  size_t r = ZSTD_compressStream_generic_T(z,&out,&in,(ZSTD_EndDirective)mode);
  CHECK(in.pos<=in.size); CHECK(out.pos<=out.size); CHECK(out.pos>=op0);
  if (!ZSTD_isError(r) && z->streamStage!=zcss_init) {
    CHECK(z->inToCompress<=z->inBuffPos && z->inBuffPos<=z->inBuffTarget && z->inBuffTarget<=z->inBuffSize);
    CHECK(z->outBuffFlushedSize<=z->outBuffContentSize && z->outBuffContentSize<=z->outBuffSize);
  }
#ifdef WITNESS
  CHECK(ZSTD_isError(r));
#endif
}
