#define CHECK(c) __CPROVER_assert((c), #c)
#include "compress/zstd_compress.c"
size_t nondet_size_t(void); int nondet_int(void); unsigned nondet_u32(void);
#ifndef MAXLOG
#define MAXLOG 14
#endif
void harness(void){
  ZSTD_CCtx_params p; ZSTD_CCtxParams_init(&p, 3);
  ZSTD_compressionParameters c;
  c.windowLog=nondet_u32(); c.chainLog=nondet_u32(); c.hashLog=nondet_u32(); c.searchLog=nondet_u32(); c.minMatch=nondet_u32(); c.targetLength=nondet_u32(); c.strategy=(ZSTD_strategy)nondet_u32();
  __CPROVER_assume(!ZSTD_isError(ZSTD_checkCParams(c)));
  __CPROVER_assume(c.windowLog<=MAXLOG && c.chainLog<=MAXLOG && c.hashLog<=MAXLOG);
  p.cParams = c;
  int row = nondet_int(); __CPROVER_assume(row==ZSTD_ps_enable || row==ZSTD_ps_disable);
  p.useRowMatchFinder = (ZSTD_paramSwitch_e)row;
  p.useBlockSplitter = ZSTD_ps_disable; p.ldmParams.enableLdm = ZSTD_ps_disable; p.maxBlockSize = ZSTD_BLOCKSIZE_MAX;
  size_t est = ZSTD_estimateCCtxSize_usingCCtxParams(&p);
  CHECK(!ZSTD_isError(est));
  void* ws = malloc(est); __CPROVER_assume(ws!=0);
  ZSTD_CCtx* cctx = ZSTD_initStaticCCtx(ws, est);
  CHECK(cctx != 0);
  if (cctx) {
    ZSTD_CCtx_params ap = p;
    ap.cParams = ZSTD_getCParamsFromCCtxParams(&p, ZSTD_CONTENTSIZE_UNKNOWN, 0, ZSTD_cpm_noAttachDict);
    ap.useRowMatchFinder = ZSTD_resolveRowMatchFinderMode(p.useRowMatchFinder, &ap.cParams);
    size_t r = ZSTD_resetCCtx_internal(cctx, &ap, ZSTD_CONTENTSIZE_UNKNOWN, 0, ZSTDcrp_makeClean, ZSTDb_not_buffered);
    CHECK(!ZSTD_isError(r));
    CHECK(!cctx->workspace.allocFailed);
  }
#ifdef WITNESS
  CHECK(cctx==0);
#endif
}
