#include "compress/zstd_fast.c"
#include <stdlib.h>
size_t nondet_size_t(void);
unsigned nondet_u32(void);
#ifndef N
#define N 16
#endif
#define HLOG 6
void harness(void){
  static unsigned char buf[N+8];           /* WILDCOPY slack not needed for src; */
  for (int i=0;i<N;i++) buf[i]=(unsigned char)nondet_u32();
  static ZSTD_matchState_t ms;
  static U32 hashTable[1<<HLOG];
  static seqDef seqs[N/3+1];
  static BYTE lits[N+WILDCOPY_OVERLENGTH];
  seqStore_t ss; memset(&ss,0,sizeof ss);
  ss.sequencesStart=ss.sequences=seqs; ss.litStart=ss.lit=lits; ss.maxNbSeq=N/3; ss.maxNbLit=N;
  ms.cParams.windowLog=10; ms.cParams.chainLog=6; ms.cParams.hashLog=HLOG; ms.cParams.searchLog=1; ms.cParams.minMatch=4; ms.cParams.targetLength=0; ms.cParams.strategy=ZSTD_fast;
  ms.hashTable=hashTable;
  ZSTD_window_init(&ms.window);
  ZSTD_window_update(&ms.window, buf, N, 0);
  ms.nextToUpdate = ms.window.dictLimit;
  U32 rep[3]={1,4,8};
  size_t last = ZSTD_compressBlock_fast(&ms,&ss,rep,buf,N);
  /* oracle: replay sequences */
  size_t nseq = (size_t)(ss.sequences-ss.sequencesStart);
  size_t pos=0, lpos=0;
  U32 r[3]={1,4,8};
  assert(nseq <= N/3);
  for (size_t i=0;i<nseq;i++){
    U32 ll=seqs[i].litLength, ml=seqs[i].mlBase+MINMATCH, ob=seqs[i].offBase;
    for (U32 k=0;k<ll;k++) assert(lits[lpos+k]==buf[pos+k]);
    pos+=ll; lpos+=ll;
    U32 off;
    if (ob>ZSTD_REP_NUM){ off=ob-ZSTD_REP_NUM; r[2]=r[1]; r[1]=r[0]; r[0]=off; }
    else { U32 idx = ob-1 + (ll==0); if (idx==0) off=r[0]; else { off = (idx==3)? r[0]-1 : r[idx]; if(idx!=1) r[2]=r[1]; r[1]=r[0]; r[0]=off; } }
    assert(off>=1 && off<=pos);
    assert(pos+ml<=N);
    for (U32 k=0;k<ml;k++) assert(buf[pos+k]==buf[pos+k-off]);
    pos+=ml;
  }
  assert(pos+last==N);
  assert((size_t)(ss.lit-ss.litStart)==lpos);
#ifdef WITNESS
  assert(nseq==0);
#endif
}
