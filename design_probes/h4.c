#define CHECK(c) __CPROVER_assert((c), #c)
#include "decompress/zstd_decompress_block.c"
#include "compress/zstd_compress_sequences.h"
#include <stdlib.h>
unsigned nondet_u32(void);
unsigned short nondet_u16(void);
#ifndef K
#define K 2
#endif
void harness(void){
  seqDef seqs[K];
  BYTE ll[K], ml[K], of[K];
  seqStore_t ss; memset(&ss,0,sizeof ss);
  size_t nbSeq = nondet_u32(); __CPROVER_assume(nbSeq>=1 && nbSeq<=K);
  for (int i=0;i<K;i++){ seqs[i].offBase=nondet_u32(); seqs[i].litLength=nondet_u16(); seqs[i].mlBase=nondet_u16();
     __CPROVER_assume(seqs[i].offBase>=1 && seqs[i].offBase < (1u<<29)); }
  ss.sequencesStart=seqs; ss.sequences=seqs+nbSeq; ss.llCode=ll; ss.mlCode=ml; ss.ofCode=of; ss.longLengthType=ZSTD_llt_none;
  int longOffsets = ZSTD_seqToCodes(&ss);
  static FSE_CTable ctLL[FSE_CTABLE_SIZE_U32(LLFSELog, MaxLL)], ctML[FSE_CTABLE_SIZE_U32(MLFSELog, MaxML)], ctOF[FSE_CTABLE_SIZE_U32(OffFSELog, MaxOff)];
  static U32 wksp[2000];
  size_t e;
  e = FSE_buildCTable_wksp(ctLL, LL_defaultNorm, MaxLL, LL_defaultNormLog, wksp, sizeof wksp); CHECK(!ERR_isError(e));
  e = FSE_buildCTable_wksp(ctML, ML_defaultNorm, MaxML, ML_defaultNormLog, wksp, sizeof wksp); CHECK(!ERR_isError(e));
  e = FSE_buildCTable_wksp(ctOF, OF_defaultNorm, DefaultMaxOff, OF_defaultNormLog, wksp, sizeof wksp); CHECK(!ERR_isError(e));
  static BYTE arena[64+64]; BYTE* out = arena+64;
  size_t sz = ZSTD_encodeSequences(out, 64, ctML, ml, ctOF, of, ctLL, ll, seqs, nbSeq, longOffsets, 0);
  CHECK(!ERR_isError(sz));
  /* decode */
  seqState_t st;
  st.prevOffset[0]=1; st.prevOffset[1]=4; st.prevOffset[2]=8;
  size_t r = BIT_initDStream(&st.DStream, out, sz); CHECK(!ERR_isError(r));
  ZSTD_initFseState(&st.stateLL,&st.DStream, LL_defaultDTable);
  ZSTD_initFseState(&st.stateOffb,&st.DStream, OF_defaultDTable);
  ZSTD_initFseState(&st.stateML,&st.DStream, ML_defaultDTable);
  for (size_t i=0;i<nbSeq;i++){
     seq_t s = ZSTD_decodeSequence(&st, ZSTD_lo_isRegularOffset, i==nbSeq-1);
     CHECK(s.litLength == seqs[i].litLength);
     CHECK(s.matchLength == (size_t)seqs[i].mlBase + MINMATCH);
     if (seqs[i].offBase > 3) CHECK(s.offset == seqs[i].offBase - 3);
  }
  CHECK(BIT_endOfDStream(&st.DStream));
#ifdef WITNESS
  CHECK(sz < 5);
#endif
}
