#define ZSTD_STATIC_LINKING_ONLY
#include "zstd.h"
#include <stdio.h>
#include <string.h>
int main(int argc,char**argv){
  char src[400]; for (int i=0;i<400;i++) src[i]="abcde"[i%5];
  ZSTD_Sequence seqs[2] = { {0xFFFFFFFDu,5,390,0}, {0,5,0,0} };
  ZSTD_CCtx* c = ZSTD_createCCtx();
  ZSTD_CCtx_setParameter(c, ZSTD_c_validateSequences, 1);
  ZSTD_CCtx_setParameter(c, ZSTD_c_blockDelimiters, ZSTD_sf_explicitBlockDelimiters);
  ZSTD_CCtx_setParameter(c, ZSTD_c_searchForExternalRepcodes, argc>1 ? ZSTD_ps_enable : ZSTD_ps_disable);
  char dst[600];
  size_t r = ZSTD_compressSequences(c, dst, sizeof dst, seqs, 2, src, 400);
  printf("compressSequences: %zu %s\n", r, ZSTD_isError(r)?ZSTD_getErrorName(r):"ok");
  if (!ZSTD_isError(r)) { char out[640]; size_t d = ZSTD_decompress(out, sizeof out, dst, r); printf("decompress: %zu %s\n", d, ZSTD_isError(d)?ZSTD_getErrorName(d):"ok"); }
  return 0;
}
