#define CHECK(c) __CPROVER_assert((c), #c)
#define ZSTD_STATIC_LINKING_ONLY
#include "zstd.h"
#include "common/pool.h"
#include <stdlib.h>
#include <pthread.h>
unsigned nondet_u32(void);
int nondet_int(void);
static unsigned alloc_count, fail_at; static int live;
static void* my_alloc(void* o, size_t s){ alloc_count++; if (alloc_count==fail_at) return 0; void* p = malloc(s); __CPROVER_assume(p!=0); live++; return p; }
static void my_free(void* o, void* p){ if (p) { live--; free(p);} }
/* pthread stubs: creation may fail; threads are not run (sequential harness) */
static int created, joined;
int pthread_create(pthread_t* t, const pthread_attr_t* a, void*(*f)(void*), void* arg){ if (nondet_int()) return 11; *t=(pthread_t)(++created); return 0; }
int pthread_join(pthread_t t, void** r){ joined++; return 0; }
int pthread_mutex_init(pthread_mutex_t* m, const pthread_mutexattr_t* a){ return nondet_int()?12:0; }
int pthread_mutex_destroy(pthread_mutex_t* m){ return 0;}
int pthread_mutex_lock(pthread_mutex_t* m){ return 0;}
int pthread_mutex_unlock(pthread_mutex_t* m){ return 0;}
int pthread_cond_init(pthread_cond_t* c, const pthread_condattr_t* a){ return nondet_int()?12:0; }
int pthread_cond_destroy(pthread_cond_t* c){ return 0;}
int pthread_cond_broadcast(pthread_cond_t* c){ return 0;}
int pthread_cond_signal(pthread_cond_t* c){ return 0;}
void harness(void){
  fail_at = nondet_u32();
  ZSTD_customMem cm = { my_alloc, my_free, 0 };
  size_t nt = nondet_u32(); __CPROVER_assume(nt>=1 && nt<=3);
  size_t qs = nondet_u32(); __CPROVER_assume(qs<=2);
  POOL_ctx* p = POOL_create_advanced(nt, qs, cm);
  if (p==0) { CHECK(live==0); CHECK(created==joined); }
  else { POOL_free(p); CHECK(live==0); CHECK(created==joined && created==(int)nt); }
#ifdef WITNESS
  CHECK(p!=0);
#endif
}
