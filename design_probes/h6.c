#define CHECK(c) __CPROVER_assert((c), #c)

#define ZSTD_STATIC_LINKING_ONLY
#include "compress/zstd_compress_internal.h"
#include <stdlib.h>
int nondet_int(void);
void harness(void){
  ZSTD_CCtx_params p, old;
  /* arbitrary pre-state */
  unsigned char* pb=(unsigned char*)&p; for (unsigned i=0;i<sizeof p;i++) pb[i]=(unsigned char)nondet_int();
  old = p;
  int param = nondet_int(), value = nondet_int();
  ZSTD_bounds b = ZSTD_cParam_getBounds((ZSTD_cParameter)param);
  size_t r = ZSTD_CCtxParams_setParameter(&p, (ZSTD_cParameter)param, value);
  if (ZSTD_isError(b.error)) { CHECK(ZSTD_isError(r)); }
  if (ZSTD_isError(r)) { CHECK(memcmp(&p,&old,sizeof p)==0); }
  else {
    int got; size_t g = ZSTD_CCtxParams_getParameter(&p,(ZSTD_cParameter)param,&got);
    CHECK(!ZSTD_isError(g));
    CHECK(!ZSTD_isError(b.error));
    CHECK(got>=b.lowerBound && got<=b.upperBound || got==0);
    if (value>=b.lowerBound && value<=b.upperBound && value!=0 && param!=ZSTD_c_jobSize && param!=ZSTD_c_targetCBlockSize) CHECK(got==value || (b.lowerBound==0&&b.upperBound==1));
  }
  if (!ZSTD_isError(b.error) && value>=b.lowerBound && value<=b.upperBound) CHECK(!ZSTD_isError(r));
#ifdef WITNESS
  CHECK(ZSTD_isError(r));
#endif
}
