#!/bin/bash
# thorough_sweep.sh [P] : run every thorough-only harness instance once (P at a time), one summary line each in /tmp/thorough/summary.txt
cd /verif; mkdir -p /tmp/thorough; : > /tmp/thorough/summary.txt
one() { n=$1; ./check --harness $n --tier thorough > /tmp/thorough/$n.json 2>&1; rc=$?
  python3 - "$n" "$rc" <<'PY' >> /tmp/thorough/summary.txt
import json,sys,re
n,rc=sys.argv[1],sys.argv[2]
t=open('/tmp/thorough/%s.json'%n).read()
try:
    j=json.loads(t[t.index('{'):]); print(n, j['status'], 'solver_s=%s rss=%sMB props=%s'%(j.get('solver_s'), j.get('rss_mb'), j.get('properties')), '; '.join(j.get('inconclusive',[])[:2])[:200])
except Exception as e: print(n, 'rc='+rc, 'unparsable', str(e)[:80])
PY
}
export -f one
./check --list | awk '$2=="thorough"{print $1}' | xargs -P ${1:-2} -I{} bash -c 'one {}'
