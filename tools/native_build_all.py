#!/usr/bin/env python3
"""compile every harness instance natively (syntax only): a harness that gcc rejects cannot replay its counterexamples"""
import sys, os, tempfile, shutil, subprocess, importlib.machinery, importlib.util
loader = importlib.machinery.SourceFileLoader('chk', '/verif/check'); spec = importlib.util.spec_from_loader('chk', loader); chk = importlib.util.module_from_spec(spec); loader.exec_module(chk)
bad = 0
for h in chk.all_harnesses():
    scratch = tempfile.mkdtemp(prefix='nb.', dir='/var/tmp')
    try:
        gen = chk.do_prep(h, scratch, [])
        incs, srcs = chk.build_cmdline(h, scratch, gen, native=True)
        cmd = ['gcc', '-fsyntax-only', '-w', '-DVERIF_NATIVE=1'] + chk.BASE_DEFS + h['defs'] + incs + [h['src']]
        p = subprocess.run(cmd, capture_output=True, text=True)
        if p.returncode != 0:
            bad += 1; print('NATIVE-BUILD-FAIL', h['name']); print('   ' + '\n   '.join(p.stderr.strip().splitlines()[:6]))
    except Exception as e:
        bad += 1; print('PREP-FAIL', h['name'], e)
    finally:
        shutil.rmtree(scratch, ignore_errors=True)
print('native build check: %d harness instances, %d failing' % (len(chk.all_harnesses()), bad))
sys.exit(1 if bad else 0)
