mk () 
{ 
    id=$1;
    file=$2;
    from=$3;
    to=$4;
    mkdir -p /tmp/seeds/$id;
    ( cd /repo && python3 - "$file" "$from" "$to" <<'PY' > /tmp/seeds/$id/patch.diff
import sys, difflib
f, a, b = sys.argv[1:4]
s = open(f).read(); assert s.count(a) >= 1, 'pattern not found'
t = s.replace(a, b, 1)
sys.stdout.writelines(difflib.unified_diff(s.splitlines(True), t.splitlines(True), 'a/' + f, 'b/' + f))
PY
 )
}
