#!/bin/bash
# run_all.sh [tier] : run every claimed property's check on the clean tree, sequentially; summary at the end
T=${1:-quick}; cd /verif; mkdir -p /tmp/runall; : > /tmp/runall/summary.txt
for p in $(python3 -c "import json;print(' '.join(c['property_id'] for c in json.load(open('MANIFEST.json'))['checks']))"); do
  /usr/bin/time -f "%e s" ./check $p --tier $T > /tmp/runall/$p.log 2>&1; rc=$?
  echo "$p rc=$rc $(tail -2 /tmp/runall/$p.log | tr '\n' ' ')" >> /tmp/runall/summary.txt
done
cat /tmp/runall/summary.txt
