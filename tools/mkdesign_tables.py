#!/usr/bin/env python3
"""regenerate the machine-derived tables of DESIGN.md (between the BEGIN/END markers) from the harness registry,
the committed evidence files, known_findings.json and seeded/*/{meta,detect}.json"""
import json, os, re, glob, importlib.util, importlib.machinery
VERIF = os.path.dirname(os.path.dirname(os.path.abspath(__file__)))
loader = importlib.machinery.SourceFileLoader('checkmod', os.path.join(VERIF, 'check'))
spec = importlib.util.spec_from_loader('checkmod', loader)
chk = importlib.util.module_from_spec(spec); loader.exec_module(chk)

def ev_index():
    idx = {}
    for f in glob.glob(os.path.join(VERIF, 'evidence', '*.json')):
        try: e = json.load(open(f))
        except Exception: continue
        for s in e.get('coverage', {}).get('samples', []):
            if isinstance(s, dict) and 'harness' in s: idx.setdefault(s['harness'], s)
    return idx

def clip(s, n):
    s = re.sub(r'\s+', ' ', s).strip()
    return s if len(s) <= n else s[:n - 1].rstrip() + '…'

def harness_table():
    ev = ev_index()
    out = []
    hs = chk.all_harnesses()
    props = sorted(set(p for h in hs for p in h['props']))
    for p in props:
        out.append('\n#### %s\n' % p)
        out.append('| harness | tier | primary | real functions encoded | bounds (first clause) | back end / memory model | last clean run |')
        out.append('|---|---|---|---|---|---|---|')
        groups = {}
        for h in hs:
            if p not in h['props']: continue
            groups.setdefault((h.get('src', h['name']), h['tier']), []).append(h)
        for (f, tier), g in groups.items():
            h = g[0]
            names = [x['name'] for x in g]
            if len(names) > 1:
                pre = os.path.commonprefix(names); pre = pre[:pre.rfind('.') + 1] if '.' in pre else ''
                label = '`%s{%s}`' % (pre, ','.join(n[len(pre):] for n in names)) if pre else ', '.join('`%s`' % n for n in names)
            else: label = '`%s`' % names[0]
            es = [ev.get(n) for n in names if ev.get(n)]
            if es:
                sts = sorted(set(e['status'] for e in es))
                run = '%s; %d props; %.0f s solver (max instance %.0f s); max %d MB' % ('/'.join(sts), sum(e['cbmc_properties'] for e in es), sum(e['solver_s'] for e in es), max(e['solver_s'] for e in es), max(e['rss_mb'] for e in es))
            else: run = 'see evidence of a thorough run' if tier != 'quick' else 'n/a'
            out.append('| %s | %s | %s | %s | %s | %s / %s | %s |' % (
                label, tier, 'yes' if h['props'][0] == p else 'shared (%s)' % h['props'][0],
                clip(', '.join(h['functions'][:6]) + (' …' if len(h['functions']) > 6 else ''), 160),
                clip(h['bounds'][0] if h['bounds'] else '', 220).replace('|', '/'),
                '/'.join(sorted(set(x['backend'] for x in g))), '/'.join(sorted(set(x['mem'] for x in g))), run))
    return '\n'.join(out) + '\n'

def seed_table():
    out = ['| seed | property | file(s) | what the change does (author\'s summary, clipped) | needs to manifest | caught by (quick check) |', '|---|---|---|---|---|---|']
    for d in sorted(glob.glob(os.path.join(VERIF, 'seeded', 'C*'))):
        sid = os.path.basename(d)
        try: m = json.load(open(os.path.join(d, 'meta.json')))
        except Exception: m = {}
        try: det = json.load(open(os.path.join(d, 'detect.json')))
        except Exception: det = {}
        hs = sorted(set(v['harness'] for v in det.get('violations', [])))
        checks = sorted(set(v['check'] for v in det.get('violations', [])))
        caught = ('`' + '`, `'.join(hs[:3]) + '`' + (' …' if len(hs) > 3 else '') + ': ' + clip(checks[0] if checks else '', 110)) if det.get('detected') else '**MISSED**'
        out.append('| %s | %s | %s | %s | %s | %s |' % (sid, m.get('property', sid[:3]), clip(', '.join(m.get('files', [])), 70),
                   clip(m.get('summary', ''), 260).replace('|', '/'), clip(m.get('needs', ''), 200).replace('|', '/'), caught.replace('|', '/')))
    return '\n'.join(out) + '\n'

def findings_table():
    k = json.load(open(os.path.join(VERIF, 'known_findings.json')))
    out = ['| id | property | status | commit in /repo | what failed |', '|---|---|---|---|---|']
    for f in k['findings']:
        out.append('| %s | %s | %s | `%s` | %s |' % (f.get('id', ''), f['property'], f['status'], f.get('commit', ''), re.sub(r'^fixed: property=\S+ \S+ ', '', f.get('what', '')).replace('|', '/')))
    return '\n'.join(out) + '\n'

def main():
    p = os.path.join(VERIF, 'DESIGN.md'); s = open(p).read()
    for tag, fn in (('HARNESS TABLE', harness_table), ('SEED TABLE', seed_table), ('FINDINGS TABLE', findings_table)):
        a, b = '<!-- BEGIN %s -->' % tag, '<!-- END %s -->' % tag
        if a in s and b in s:
            s = s[:s.index(a) + len(a)] + '\n' + fn() + s[s.index(b):]
    open(p, 'w').write(s)
    print('DESIGN.md tables regenerated')

if __name__ == '__main__':
    main()
