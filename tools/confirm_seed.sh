#!/bin/bash
# confirm_seed.sh <seed-dir> : independently confirm a seeded change in a scratch worktree of /repo
#   1. patch applies to /repo HEAD   2. demo fails with it   3. make check passes with it   4. demo passes without it
# writes <seed-dir>/confirm.json ; removes the worktree and its build output afterwards.
set -u
SD=$(readlink -f "$1"); ID=$(basename "$SD"); WT=/tmp/cs_$ID
rm -rf "$WT"; git -C /repo worktree prune
git -C /repo worktree add -q --detach "$WT" HEAD || exit 2
res() { python3 - "$SD" "$@" <<'PY'
import json,sys
sd=sys.argv[1]; kv=dict(a.split('=',1) for a in sys.argv[2:])
json.dump(kv, open(sd+'/confirm.json','w'), indent=1)
PY
}
cd "$WT"
if ! git apply --check "$SD/patch.diff" 2>/dev/null; then res applies=false; git -C /repo worktree remove --force "$WT"; exit 1; fi
# demo on the clean tree first
bash "$SD/build_and_run.sh" "$WT" > "$SD/confirm.demo_clean.log" 2>&1; CLEAN=$?
git checkout -q -- . ; git clean -fdxq
git apply "$SD/patch.diff"
bash "$SD/build_and_run.sh" "$WT" > "$SD/confirm.demo_patched.log" 2>&1; PATCHED=$?
git clean -fdxq
if [ "${SKIP_TESTS:-0}" = 1 ]; then TESTS=skipped; else
  make -k -j8 check VERBOSE=1 > "$SD/confirm.check.log" 2>&1; TESTS=$?
fi
cd /; git -C /repo worktree remove --force "$WT"
res applies=true demo_clean_rc=$CLEAN demo_patched_rc=$PATCHED make_check_rc=$TESTS head=$(git -C /repo rev-parse --short HEAD)
tail -c 300 "$SD/confirm.check.log" 2>/dev/null | tail -3
cat "$SD/confirm.json"
