#!/bin/bash
# seed_matrix.sh : run every confirmed seeded change against the quick check of its property; store results in /verif/seeded/<id>/
cd /verif
run_one() {
  s=$1; id=$(basename $s); prop=${id:0:3}
  mkdir -p seeded/$id
  for f in patch.diff demo.c demo.sh build_and_run.sh meta.json confirm.json; do [ -f $s/$f ] && cp $s/$f seeded/$id/; done
  out=$(tools/mut_test.sh $s $prop 2>&1); rc=$?
  echo "$out" | tail -1
  python3 - "$id" "$prop" "$rc" <<'PY'
import json, sys, os, re
sid, prop, rc = sys.argv[1], sys.argv[2], int(sys.argv[3])
log = open('/tmp/mt_out/%s/%s.log' % (sid, prop)).read() if os.path.exists('/tmp/mt_out/%s/%s.log' % (sid, prop)) else ''
viol = re.findall(r'harness=(\S+) check="([^"]*)"', log)
d = dict(seed=sid, property=prop, check_cmd='./check %s --tier quick' % prop, detected=(rc == 0),
         violations=[dict(harness=h, check=c) for h, c in viol][:8],
         summary_line=[l for l in log.splitlines() if 'tier=quick' in l][-1:] )
json.dump(d, open('/verif/seeded/%s/detect.json' % sid, 'w'), indent=1)
PY
}
export -f run_one
if [ $# -gt 0 ]; then for i in "$@"; do echo /tmp/seeds/$i; done; else ls -d /tmp/seeds/C??[ab]; fi | xargs -P ${SEED_P:-2} -I{} bash -c 'run_one {}'
