#!/bin/bash
# mut_test.sh <seed-dir> <PROP> [--only SUBSTR] : run a property's quick check against a seeded change,
# in a scratch worktree of /repo (so /repo itself is never touched and several can run in parallel).
# Prints the VIOLATION lines; exit 0 if the change was detected (check exited 1), 1 if missed.
SD=$(readlink -f "$1"); PROP=$2; shift 2
ID=$(basename "$SD"); WT=/tmp/mt_${ID}_$PROP
rm -rf "$WT"; git -C /repo worktree prune
git -C /repo worktree add -q --detach "$WT" HEAD || exit 2
if ! git -C "$WT" apply "$SD/patch.diff" 2>/dev/null && ! git -C "$WT" apply -C1 --recount "$SD/patch.diff" 2>/dev/null && ! (cd "$WT" && patch -p1 -F3 -s < "$SD/patch.diff"); then echo "PATCH DOES NOT APPLY: $ID"; git -C /repo worktree remove --force "$WT"; exit 2; fi
mkdir -p /tmp/mt_out/$ID
cd /verif
VERIF_REPO="$WT" VERIF_EVIDENCE_DIR=/tmp/mt_out/$ID/evidence VERIF_REPLAY_DIR=/tmp/mt_out/$ID/replays ./check $PROP --tier ${TIER:-quick} "$@" > /tmp/mt_out/$ID/$PROP.log 2>&1
rc=$?
git -C /repo worktree remove --force "$WT"
grep -E "^VIOLATION|^  harness=|violations=" /tmp/mt_out/$ID/$PROP.log | cut -c1-260
if [ $rc -eq 1 ]; then echo "DETECTED $ID by $PROP"; exit 0; else echo "MISSED $ID by $PROP (rc=$rc)"; exit 1; fi
