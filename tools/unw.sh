#!/bin/bash
# unw.sh <harness> <secs>: count loop unwindings during symex
H=$1; T=${2:-60}
cd /verif
python3 - "$H" <<'PY' > /tmp/unw_cmd.txt
import sys, importlib.machinery, importlib.util, tempfile, os
loader = importlib.machinery.SourceFileLoader('chk', '/verif/check'); spec = importlib.util.spec_from_loader('chk', loader); chk = importlib.util.module_from_spec(spec); loader.exec_module(chk)
h = [x for x in chk.all_harnesses() if x['name'] == sys.argv[1]][0]
scratch = tempfile.mkdtemp(prefix='prof.', dir='/var/tmp')
gb, gen = chk.build_goto(h, scratch, [])
cmd, env = chk.cbmc_cmd(h, gb, scratch)
cmd = [c for c in cmd if c != '--json-ui'] + ['--verbosity', '9']
print(scratch); print(' '.join(cmd))
PY
S=$(head -1 /tmp/unw_cmd.txt); CMD=$(tail -1 /tmp/unw_cmd.txt)
(ulimit -s unlimited; cd $S; timeout $T $CMD 2>&1 | grep -E "Unwinding loop|Runtime|variables" | sed -E 's/iteration [0-9]+ //' | awk '{k=$0; sub(/thread.*/,"",k); c[k]++} END{for(k in c) print c[k], k}' | sort -rn | head -25)
rm -rf $S
