/* @harness c02.cstream2_entry
 * @props C02 C10 C07
 * @tier quick
 * @functions ZSTD_compressStream2 ZSTD_setBufferExpectations ZSTD_checkBufferStability
 * @bounds the entry wrapper of streaming compression: ONE call from an ARBITRARY init-stage or mid-frame state; stable-input deferral (several small e_continue calls before the first block): already-deferred byte count 0..128 KiB, new input 0..128 KiB, any directive, buffered or stable in/out modes; cursor positions arbitrary within their buffers
 * @assume ZSTD_CCtx_init_compressStream2 and ZSTD_compressStream_generic are contract stubs (the function text is re-extracted from /repo at every run): init succeeds or fails and copies the requested buffer modes; the generic body re-winds the deferred stable input exactly as the real one does (zstd_compress.c, first lines of ZSTD_compressStream_generic), consumes any amount of input and produces any amount of output within the buffers; single-threaded build
 * @outside the body of the stream state machine (c02.cstream_step, thorough); multithreaded delegation
 * @prep extract lib/compress/zstd_compress.c ZSTD_setBufferExpectations,ZSTD_checkBufferStability,ZSTD_compressStream2 cstream2.inc
 * @link lib/common/zstd_common.c lib/common/error_private.c
 * @mem native
 * @cbmc --unwind 4
 * @timeout 300
 * @memgb 4
 */
#include "v.h"
#include <string.h>
#include "compress/zstd_compress_internal.h"

static size_t g_resume;      /* ghost: the input position from which compression must (re)start */
static int g_initCalls, g_genCalls; static size_t g_initTotal;
static size_t ZSTD_CCtx_init_compressStream2(ZSTD_CCtx* cctx, ZSTD_EndDirective endOp, size_t inSize)
{
    (void)endOp; g_initCalls++; g_initTotal = inSize;
    if (nondet_bool()) return ERROR(memory_allocation);
    cctx->appliedParams.inBufferMode = cctx->requestedParams.inBufferMode;
    cctx->appliedParams.outBufferMode = cctx->requestedParams.outBufferMode;
    cctx->appliedParams.nbWorkers = 0;
    cctx->streamStage = zcss_load;
    return 0;
}
static size_t ZSTD_compressStream_generic(ZSTD_CStream* zcs, ZSTD_outBuffer* output, ZSTD_inBuffer* input, ZSTD_EndDirective const flushMode)
{
    (void)flushMode; g_genCalls++;
    if (zcs->appliedParams.inBufferMode == ZSTD_bm_stable) {      /* same re-wind as the real body */
        VCHECKM(input->pos >= zcs->stableIn_notConsumed, "deferred stable input never exceeds what was presented");
        input->pos -= zcs->stableIn_notConsumed; zcs->stableIn_notConsumed = 0;
    }
    VCHECKM(input->pos == g_resume, "compression (re)starts exactly at the first byte that was presented but not yet compressed: no deferred byte is dropped or repeated");
    {   size_t const c = nondet_size(), p = nondet_size();
        VASSUME(c <= input->size - input->pos && p <= output->size - output->pos);
        input->pos += c; output->pos += p; g_resume = input->pos; }
    if (nondet_bool()) return ERROR(dstSize_tooSmall);
    return 0;
}
#include "cstream2.inc"

static ZSTD_CCtx g_cctx; static unsigned char g_inbuf[8], g_outbuf[8];

void harness(void)
{
    ZSTD_CCtx* const c = &g_cctx; ZSTD_inBuffer in; ZSTD_outBuffer out; size_t r;
    unsigned const endOp = nondet_uint();
    int const init = nondet_bool();
    in.src = g_inbuf; in.size = nondet_size(); in.pos = nondet_size(); VASSUME(in.pos <= in.size && in.size <= ((size_t)1 << 20));
    out.dst = g_outbuf; out.size = nondet_size(); out.pos = nondet_size(); VASSUME(out.pos <= out.size && out.size <= ((size_t)1 << 20));
    VASSUME(endOp <= ZSTD_e_end);
    c->requestedParams.inBufferMode = nondet_bool() ? ZSTD_bm_stable : ZSTD_bm_buffered;
    c->requestedParams.outBufferMode = nondet_bool() ? ZSTD_bm_stable : ZSTD_bm_buffered;
    c->requestedParams.format = ZSTD_f_zstd1;
    if (init) {
        c->streamStage = zcss_init;
        c->stableIn_notConsumed = nondet_size(); VASSUME(c->stableIn_notConsumed <= ZSTD_BLOCKSIZE_MAX);
        if (c->stableIn_notConsumed) {
            /* invariant left by the previous deferring calls: stable mode, same buffer, pos = where the caller stopped, and the deferred bytes lie just before it */
            VASSUME(c->requestedParams.inBufferMode == ZSTD_bm_stable);
            c->expectedInBuffer.src = in.src; c->expectedInBuffer.size = in.pos; c->expectedInBuffer.pos = in.pos;
            VASSUME(in.pos >= c->stableIn_notConsumed);
        }
        g_resume = in.pos - c->stableIn_notConsumed;
    } else {
        c->streamStage = zcss_load; c->stableIn_notConsumed = 0;
        c->appliedParams.inBufferMode = c->requestedParams.inBufferMode; c->appliedParams.outBufferMode = c->requestedParams.outBufferMode;
        c->expectedInBuffer = in; c->expectedOutBufferSize = out.size - out.pos;
        g_resume = in.pos;
    }
    {   size_t const inPos0 = in.pos, outPos0 = out.pos, deferred0 = c->stableIn_notConsumed;
        r = ZSTD_compressStream2(c, &out, &in, (ZSTD_EndDirective)endOp);
        VCHECKM(in.pos <= in.size && out.pos <= out.size, "cursors stay inside the caller's buffers");
        if (!ZSTD_isError(r)) {
            if (g_genCalls == 0) {
                /* deferral: nothing compressed yet; the bytes are only PRETENDED consumed */
                VCHECKM(init && endOp == ZSTD_e_continue && c->requestedParams.inBufferMode == ZSTD_bm_stable, "input is deferred only in stable-input mode, before the first block, on a continue directive");
                VCHECKM(in.pos - c->stableIn_notConsumed == inPos0 - deferred0, "while deferring, the point from which compression must resume does not move (every deferred byte stays accounted for)");
                VCHECKM(out.pos == outPos0, "a deferring call writes nothing");
                VCHECKM(c->streamStage == zcss_init, "still before the first block");
                VWITNESS(deferred0 > 0 && in.size - inPos0 > 0);
            } else {
                VCHECKM(g_genCalls == 1, "state machine body runs once per call");
                if (init) VCHECKM(g_initCalls == 1 && g_initTotal == (in.size - inPos0) + deferred0, "the frame is initialised with the total of deferred and newly offered input");
                VWITNESS(init && deferred0 > 0);
                VWITNESS(!init);
            }
        }
    }
}
