/* @harness c09.pledged
 * @props C09
 * @tier quick
 * @functions ZSTD_compressEnd_public ZSTD_compressContinue_public ZSTD_compressContinue_internal ZSTD_writeEpilogue ZSTD_writeFrameHeader ZSTD_window_update
 * @bounds pledged source size, bytes consumed so far: every 64-bit value below 2^62; this call's srcSize 0..16; destination capacity 0..48 (tail-aligned); stage: every value; content-size / checksum flags arbitrary
 * @assume ZSTD_compress_frameChunk is a contract stub (scratch copy of zstd_compress.c with only its definition renamed): error, or any size <= dstCapacity; XXH64 uninterpreted
 * @assume context invariant: contentSizeFlag is clear whenever the pledged size is unknown (established by ZSTD_resetCCtx_internal, asserted in the source)
 * @outside multithreaded path (each job pledges its own size)
 * @prep rename lib/compress/zstd_compress.c ZSTD_compress_frameChunk ZSTD_compress_frameChunk_REAL zc_nochunk.c
 * @link lib/common/zstd_common.c lib/common/error_private.c
 * @mem havoc
 * @cbmc --unwind 4
 * @timeout 300
 * @memgb 4
 */
#include "v.h"
#include <string.h>
#include "compress/zstd_compress_internal.h"
static size_t ZSTD_compress_frameChunk(ZSTD_CCtx* cctx, void* dst, size_t dstCapacity, const void* src, size_t srcSize, U32 lastFrameChunk);
#include "zc_nochunk.c"

static size_t ZSTD_compress_frameChunk(ZSTD_CCtx* cctx, void* dst, size_t dstCapacity, const void* src, size_t srcSize, U32 lastFrameChunk)
{
    size_t r = nondet_size();
    (void)dst; (void)src; (void)srcSize;
    if (nondet_bool()) return ERROR(dstSize_tooSmall);
    VASSUME(r <= dstCapacity);
    if (lastFrameChunk && r > 0) cctx->stage = ZSTDcs_ending;
    return r;
}
XXH_errorcode XXH64_reset(XXH64_state_t* s, XXH64_hash_t seed) { (void)s; (void)seed; return XXH_OK; }
XXH_errorcode XXH64_update(XXH64_state_t* s, const void* in, size_t len) { (void)s; (void)in; (void)len; return XXH_OK; }
XXH64_hash_t XXH64_digest(const XXH64_state_t* s) { (void)s; return nondet_u64(); }

#define CAPMAX 48
#define SRCMAX 16
static ZSTD_CCtx g_cctx;
static BYTE g_arena[1024 + V_SLACK + CAPMAX + SRCMAX];     /* 1024 front bytes: the window base (src - 1000) stays inside the arena */

void harness(void)
{
    ZSTD_CCtx* const c = &g_cctx;
    size_t const cap = nondet_size(), srcSize = nondet_size();
    U64 const pledgedPlusOne = nondet_u64(), consumed0 = nondet_u64();
    int const end = nondet_bool();
    BYTE* dst; const BYTE* src; size_t r;
    VASSUME(cap <= CAPMAX && srcSize <= SRCMAX);
    VASSUME(consumed0 < ((U64)1 << 62) && pledgedPlusOne < ((U64)1 << 62));
    dst = g_arena + V_SLACK + (CAPMAX - cap);
    src = g_arena + sizeof g_arena - srcSize;
    c->stage = (ZSTD_compressionStage_e)nondet_uint(); VASSUME(c->stage <= ZSTDcs_ending);
    c->pledgedSrcSizePlusOne = pledgedPlusOne; c->consumedSrcSize = consumed0; c->producedCSize = nondet_u64();
    c->appliedParams.fParams.contentSizeFlag = nondet_bool(); c->appliedParams.fParams.checksumFlag = nondet_bool();
    c->appliedParams.fParams.noDictIDFlag = nondet_bool();
    c->appliedParams.cParams.windowLog = 20; c->appliedParams.format = ZSTD_f_zstd1;
    c->appliedParams.ldmParams.enableLdm = ZSTD_ps_disable;
    VASSUME(!(c->appliedParams.fParams.contentSizeFlag && pledgedPlusOne == 0));
    {   ZSTD_window_t* const w = &c->blockState.matchState.window;
        w->nextSrc = src; w->base = src - 1000; w->dictBase = src - 1000; w->dictLimit = 2; w->lowLimit = 2;
    }
    r = end ? ZSTD_compressEnd_public(c, dst, cap, src, srcSize) : ZSTD_compressContinue_public(c, dst, cap, src, srcSize);
    if (!ZSTD_isError(r)) {
        VCHECKM(r <= cap, "bytes written never exceed the capacity");
        if (pledgedPlusOne != 0) {
            if (end) VCHECKM(consumed0 + srcSize == pledgedPlusOne - 1, "ending a frame succeeds only if exactly the pledged number of bytes was supplied");
            else if (srcSize) VCHECKM(consumed0 + srcSize <= pledgedPlusOne - 1, "feeding more than the pledged size is refused at the call that crosses it");
        }
        if (srcSize) VCHECKM(c->consumedSrcSize == consumed0 + srcSize, "consumed counter advances by the bytes accepted");
        VWITNESS(end && pledgedPlusOne != 0 && srcSize == 7);
        VWITNESS(end && pledgedPlusOne == 0);
        VWITNESS(!end && pledgedPlusOne != 0 && !c->appliedParams.fParams.contentSizeFlag && srcSize > 0);
    }
    VWITNESS(ZSTD_isError(r) && end && pledgedPlusOne != 0 && consumed0 + srcSize < pledgedPlusOne - 1 && cap == CAPMAX);
}
