/* @harness c15
 * @props C15
 * @tier quick
 * @functions ZSTD_window_correctOverflow ZSTD_window_needOverflowCorrection ZSTD_window_canOverflowCorrect ZSTD_reduceTable ZSTD_reduceTable_btlazy2 ZSTD_reduceTable_internal
 * @bounds every 32-bit value of curr / lowLimit / dictLimit / stored index / nbOverflowCorrections; windowLog 10..31; cycleLog 0..30; block or chunk size <= 1 MiB (largest unit between two overflow checks: 128 KiB blocks, 1 MiB LDM chunks); tables of 32 entries (two ZSTD_ROWSIZE rows), every entry symbolic
 * @bounds built with DEBUGLEVEL=1 so that the library's own assert()s inside these functions are solver obligations
 * @assume window invariant lowLimit <= dictLimit <= curr; trigger = the real ZSTD_window_needOverflowCorrection answered 1 for [src, src+blk)
 * @outside executing multi-GiB streams; the match finders' use of corrected indices (C01/C07 bounds)
 * @assume CBMC pointer checks are OFF in this harness (--no-pointer-check): the window base pointer is by design up to 4 GiB outside the buffer (ZSTD_ALLOW_POINTER_OVERFLOW_ATTR), and CBMC 6 cuts every path after such a pointer is compared; the obligations here are index ARITHMETIC (array bounds, overflow, shifts and the VCHECKs stay on)
 * @link lib/common/zstd_common.c lib/common/error_private.c
 * @defs -DDEBUGLEVEL=1
 * @mem native
 * @cbmc --unwind 34 --no-pointer-check
 * @ignore arithmetic overflow on signed - in .*(base|src)
 * @timeout 300
 * @memgb 3
 * @instance correct_overflow -DH_CORRECT
 * @instance correct_overflow_frequent -DH_CORRECT -DZSTD_WINDOW_OVERFLOW_CORRECT_FREQUENTLY=1
 * @instance reduce_table -DH_REDUCE
 * @instance reduce_table_bt -DH_REDUCE -DH_BT
 */
#include "v.h"
#include "compress/zstd_compress.c"

static BYTE arena[256];

#ifdef H_CORRECT
void harness(void)
{
    ZSTD_window_t w;
    U32 const cycleLog = nondet_uint(), windowLog = nondet_uint();
    U32 const curr = nondet_uint();
    U32 const blk = nondet_uint();
    U32 const loadedDictEnd = nondet_uint();
    U32 const idx = nondet_uint();                   /* any stored index */
    U32 maxDist;
    const BYTE* const src = arena + 128;
    VASSUME(windowLog >= 10 && windowLog <= 31 && cycleLog <= 30);
    maxDist = 1u << windowLog;
    w.lowLimit = nondet_uint(); w.dictLimit = nondet_uint(); w.nbOverflowCorrections = nondet_uint();
    VASSUME(w.lowLimit <= w.dictLimit && w.dictLimit <= curr);
    VASSUME(blk >= 1 && blk <= (1u << 20));
    VASSUME((unsigned long long)curr + blk <= 0xFFFFFFFFull);
    w.base = src - curr; w.dictBase = w.base; w.nextSrc = src;
    VASSUME(idx <= curr);
    /* production trigger */
    VASSUME(ZSTD_window_needOverflowCorrection(w, cycleLog, maxDist, loadedDictEnd, src, src + blk));
    {   const BYTE* const addrBefore = w.base + idx;
        U32 const lowBefore = w.lowLimit;
        U32 const corr = ZSTD_window_correctOverflow(&w, cycleLog, maxDist, src);
        U32 const newCurr = (U32)(src - w.base);
        VCHECKM(newCurr == curr - corr, "new current index = old - correction");
        VCHECKM((newCurr & ((1u << cycleLog) - 1)) == (curr & ((1u << cycleLog) - 1)), "low cycleLog bits of the index preserved");
        VCHECKM(newCurr >= maxDist && newCurr - maxDist >= ZSTD_WINDOW_START_INDEX, "a full window stays addressable after the correction");
        VCHECKM(w.lowLimit <= w.dictLimit && w.dictLimit <= newCurr, "window limits stay ordered");
        VCHECKM(w.lowLimit >= ZSTD_WINDOW_START_INDEX, "lowLimit never below the start index");
        VCHECKM((unsigned long long)newCurr + ZSTD_CHUNKSIZE_MAX <= 0xFFFFFFFFull || ZSTD_WINDOW_OVERFLOW_CORRECT_FREQUENTLY, "after correction a maximal chunk cannot wrap the 32-bit index");
        VCHECKM(corr > 0, "a triggered correction makes progress");
        {   /* every stored index still inside the window keeps addressing the same byte */
            U32 table[32]; int i;
            for (i = 0; i < 32; i++) table[i] = nondet_uint();
            table[19] = idx;
            ZSTD_reduceTable(table, 32, corr);
            VCHECKM(table[19] < ZSTD_WINDOW_START_INDEX || w.base + table[19] == addrBefore, "reduced index is invalid or addresses the same byte");
            if (curr - idx <= maxDist && idx >= lowBefore && idx >= ZSTD_WINDOW_START_INDEX)
                VCHECKM(idx >= corr + ZSTD_WINDOW_START_INDEX || ZSTD_WINDOW_OVERFLOW_CORRECT_FREQUENTLY, "every in-window index survives the reduction");
        }
        VWITNESS(corr > (3u << 29));
        VWITNESS(cycleLog == 30 && windowLog == 31);
        VWITNESS(w.lowLimit == ZSTD_WINDOW_START_INDEX);
        VWITNESS(w.lowLimit > ZSTD_WINDOW_START_INDEX);
    }
}
#endif

#ifdef H_REDUCE
void harness(void)
{
    U32 table[32], before[32]; int i;
    U32 const reducer = nondet_uint();
    unsigned const k = nondet_uint();
    VASSUME(k < 32);
    for (i = 0; i < 32; i++) { table[i] = nondet_uint(); before[i] = table[i]; }
#ifdef H_BT
    ZSTD_reduceTable_btlazy2(table, 32, reducer);
#else
    ZSTD_reduceTable(table, 32, reducer);
#endif
    {   U32 const v = before[k];
        U32 const thr = reducer + ZSTD_WINDOW_START_INDEX;
        /* reducer + START_INDEX cannot wrap for corrections produced by correctOverflow (< 2^32 - 2) */
        VASSUME(reducer <= 0xFFFFFFFDu);
#ifdef H_BT
        if (v == ZSTD_DUBT_UNSORTED_MARK) VCHECKM(table[k] == ZSTD_DUBT_UNSORTED_MARK, "unsorted mark preserved in the binary-tree variant");
        else
#endif
        /* soundness (not the exact heuristic): an entry either becomes unusable (< start index) or keeps
         * addressing the same byte, which is only possible if it was at least the correction + start index */
        VCHECKM(table[k] < ZSTD_WINDOW_START_INDEX || (v >= thr && table[k] == v - reducer), "reduced entry is either invalid or addresses the same byte as before");
        VWITNESS(v >= thr && k == 31);
        VWITNESS(v < thr && k == 0);
    }
}
#endif
