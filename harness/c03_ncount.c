/* @harness c03.ncount
 * @props C03 C08
 * @tier quick
 * @functions FSE_readNCount FSE_readNCount_bmi2 FSE_readNCount_body
 * @bounds per instance: header of exactly HB arbitrary bytes (4, 9 quick; 6 thorough; fewer than 8 go through the zero-padded copy path of the real function), tail-aligned; requested maxSymbolValue = MAXSV (3, 5 quick; 9 thorough) with the normalized-counter array EXACTLY MAXSV+1 entries, so a write one entry too far leaves the object; main loop bound MAXSV+3 iterations is exact (one symbol per iteration)
 * @bounds placement: instances without suffix put the header at the very end of its object (an over-read leaves the object; but CBMC 6 cuts every path on which the function's own end-of-input test forms `ip + n` beyond one-past-the-end, so those paths are NOT covered there); (headers shorter than 8 bytes are copied by the function into a local 8-byte buffer, where the same applies and cannot be avoided); `_mid` instances leave 8 readable bytes behind the header: every path is covered for the counter-array writes and the functional post-conditions, an over-read of <= 8 bytes is then not detected
 * @outside headers longer than HB bytes (probe: 8 arbitrary bytes undecided in 10 min); maxSymbolValue up to 255 (Huffman weights)
 * @link lib/common/zstd_common.c lib/common/error_private.c
 * @ignore arithmetic overflow on signed - in \(iend
 * @mem loop
 * @cbmc --unwind 12 --unwindset __builtin_memset.0:30,__builtin_memcpy.0:12,harness.0:12,harness.1:40,harness.2:40,harness.3:16,harness.4:16
 * @timeout 1200
 * @memgb 6
 * @instance sv3_hb4 allowub=1 -DMAXSV=3 -DHB=4
 * @instance sv5_hb4 timeout=1200 allowub=1 -DMAXSV=5 -DHB=4
 * @instance sv3_hb8_mid timeout=300 -DMAXSV=3 -DHB=8 -DBACKSLACK=8
 * @instance sv3_hb8 tier=thorough timeout=900 allowub=1 -DMAXSV=3 -DHB=8
 * @instance sv5_hb9 allowub=1 tier=thorough timeout=1800 memgb=12 -DMAXSV=5 -DHB=9
 */
#include "v.h"
#include <string.h>
#include "common/entropy_common.c"

#ifndef HB
#define HB 4
#endif
#ifndef MAXSV
#define MAXSV 12
#endif
static short g_norm[V_SLACK / 2 + MAXSV + 1];
#ifndef BACKSLACK
#define BACKSLACK 0
#endif
static BYTE  g_src[V_SLACK + HB + BACKSLACK];

void harness(void)
{
    size_t const hbSize = nondet_size();
    unsigned maxSV = nondet_uint();
    unsigned tableLog = 0;
    unsigned const reqSV = maxSV;
    short* norm; const BYTE* src; size_t r; unsigned i;
    VASSUME(hbSize == HB);
    VASSUME(maxSV == MAXSV);
    norm = g_norm + (sizeof g_norm / sizeof g_norm[0]) - (maxSV + 1);
    src = g_src + sizeof g_src - hbSize - BACKSLACK;
    for (i = 0; i < HB; i++) g_src[V_SLACK + i] = nondet_uchar();
    for (i = 0; i < V_SLACK / 2; i++) g_norm[i] = 0x5A5A;
    r = FSE_readNCount(norm, &maxSV, &tableLog, src, hbSize);
    for (i = 0; i < V_SLACK / 2; i++) VCHECKM(g_norm[i] == 0x5A5A, "nothing written before the counter array");
    if (!FSE_isError(r)) {
        int sum = 0;
        VCHECKM(r <= hbSize, "bytes consumed never exceed the header size given");
        VCHECKM(tableLog >= FSE_MIN_TABLELOG && tableLog <= FSE_TABLELOG_ABSOLUTE_MAX, "table log within the absolute limits");
        VCHECKM(maxSV <= reqSV, "reported last symbol never exceeds the capacity the caller announced");
        /* every caller refuses tableLog above its own limit (<= FSE_MAX_TABLELOG = 12) right after this call;
         * at tableLog 15 a single count of 2^15 does not fit the short it is stored in (harmless: refused by callers) */
        if (tableLog <= FSE_MAX_TABLELOG) {
            for (i = 0; i <= MAXSV; i++) if (i <= maxSV) sum += (norm[i] == -1) ? 1 : norm[i];
            VCHECKM(sum == (1 << tableLog), "accepted distribution sums to 2^tableLog");
            for (i = 0; i <= MAXSV; i++) if (i <= maxSV) VCHECKM(norm[i] >= -1, "no count below -1");
        }
        VWITNESS(maxSV == reqSV);
        VWITNESS(maxSV < reqSV);
        VWITNESS(tableLog == 5);
    }
    VWITNESS(FSE_isError(r));
}
