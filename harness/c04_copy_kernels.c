/* @harness c04.copy_kernels
 * @props C04 C03
 * @tier quick
 * @functions ZSTD_overlapCopy8 ZSTD_wildcopy ZSTD_copy8 ZSTD_copy16
 * @bounds match copy kernels used by every sequence executor: offset 1..16 (every row of dec32table / dec64table and both wildcopy overlap modes), match length 8..24, 128 arbitrary bytes of history/destination
 * @assume reference = the byte-by-byte overlapping LZ copy of the format document (out[i] = out[i - offset])
 * @outside the pointer logic around the kernels (ZSTD_execSequence*: c03.seq_exec, thorough); offsets above 16 (plain non-overlapping wildcopy, same kernel)
 * @link lib/common/zstd_common.c lib/common/error_private.c
 * @mem native
 * @cbmc --unwind 6 --unwindset harness.0:130,harness.1:26,harness.2:26,harness.3:66,harness.4:130
 * @timeout 300
 * @memgb 4
 */
#include "v.h"
#include <string.h>
#include "decompress/zstd_decompress_block.c"
static BYTE A[128], R[128];
void harness(void)
{
    size_t const off = nondet_size(), len = nondet_size(); int i;
    BYTE* op = A + 64; const BYTE* ip; BYTE* o2; const BYTE* i2;
    for (i = 0; i < 128; i++) { BYTE const b = nondet_uchar(); A[i] = b; R[i] = b; }
    VASSUME(off >= 1 && off <= 16 && len >= 8 && len <= 24);
    ip = op - off; o2 = op; i2 = ip;
    if (off < 8) {          /* as in ZSTD_execSequence: spread the first 8 bytes, then overlapping wildcopy */
        ZSTD_overlapCopy8(&o2, &i2, off);
        VCHECKM(o2 == op + 8 && o2 - i2 >= 8, "after the 8-byte spread, source and destination are at least 8 apart");
        if (len > 8) ZSTD_wildcopy(o2, i2, (ptrdiff_t)len - 8, ZSTD_overlap_src_before_dst);
    } else {
        ZSTD_wildcopy(op, ip, (ptrdiff_t)len, off >= 16 ? ZSTD_no_overlap : ZSTD_overlap_src_before_dst);
    }
    for (i = 0; i < 24; i++) if ((size_t)i < len) R[64 + i] = R[64 + i - off];      /* reference LZ copy */
    for (i = 0; i < 24; i++) if ((size_t)i < len) VCHECKM(A[64 + i] == R[64 + i], "copied match equals the byte-by-byte LZ reference");
    for (i = 0; i < 64; i++) VCHECKM(A[i] == R[i], "nothing before the write position is touched");
    for (i = 64 + 24 + WILDCOPY_OVERLENGTH; i < 128; i++) VCHECKM(A[i] == R[i], "over-write is confined to WILDCOPY_OVERLENGTH bytes past the match");
    VWITNESS(off == 3 && len == 24);
    VWITNESS(off == 16 && len == 9);
}
