/* @harness c06.bound_lemma
 * @props C06
 * @tier quick
 * @functions ZSTD_compressBound ZSTD_COMPRESSBOUND
 * @bounds source size n: every value below 2^48; maximum block size b: every value 1 KiB..128 KiB (the whole ZSTD_c_maxBlockSize range); number of blocks nb = max(1, ceil(n/b)) encoded by two multiplications instead of a division
 * @assume worst case per block = raw block (block size + 3-byte header), which c06.split_loop / c05 harnesses show is what the block loop falls back to; frame header <= 18 bytes, checksum 4 bytes
 * @outside none for the arithmetic (full domain up to 2^48); that no path emits more than the raw worst case per block rests on the block-loop harnesses
 * @link lib/compress/zstd_compress.c lib/common/zstd_common.c lib/common/error_private.c
 * @mem native
 * @cbmc --unwind 4
 * @timeout 300
 * @memgb 4
 * @instance raw
 * @instance additive backend=cvc5 -DH_ADD
 */
#include "v.h"
#define ZSTD_STATIC_LINKING_ONLY
#include "zstd.h"
void harness(void)
{
    size_t const n = nondet_size(), b = nondet_size(), nb = nondet_size();
    VASSUME(n < ((size_t)1 << 48));
    VASSUME(b >= 1024 && b <= (128 << 10));
    VASSUME(nb >= 1 && nb <= ((size_t)1 << 39));
    VASSUME(nb * b >= n);
    VASSUME(nb == 1 || (nb - 1) * b < n);
    {   size_t const bound = ZSTD_compressBound(n);
        VCHECKM(!ZSTD_isError(bound), "bound defined for every size below the documented maximum");
        VCHECKM(bound >= n + 3 * nb + 18 + 4, "ZSTD_compressBound covers the all-raw-blocks worst case at EVERY accepted block size: content + 3 bytes per block + largest frame header + checksum");
        VWITNESS(b == 1024 && n == 1000000);
        VWITNESS(n == 0);
    }
#ifdef H_ADD
    {   /* documented: the bound of a concatenation is at least the sum... for sizes >= 128 KiB the margin term vanishes */
        size_t const a1 = nondet_size(), a2 = nondet_size();
        VASSUME(a1 >= (128 << 10) && a2 >= (128 << 10) && a1 < ((size_t)1 << 40) && a2 < ((size_t)1 << 40));
        VCHECKM(ZSTD_compressBound(a1 + a2) + 1 >= ZSTD_compressBound(a1) + ZSTD_compressBound(a2), "bound is (super)additive for large sizes up to rounding");
    }
#endif
}
