/* @harness c03.begin_history
 * @props C03 C15 C07
 * @tier quick
 * @functions ZSTD_decompressBegin ZSTD_checkContinuity ZSTD_decompressBegin_usingDict ZSTD_refDictContent
 * @bounds a decoder context whose history pointers (end of previous output, prefix start, virtual start, dictionary end) hold ANY stale addresses left by earlier frames; then a new frame begins and its first output buffer (any address, any size) is announced
 * @assume CBMC pointer checks are OFF here (--no-pointer-check): the code under test subtracts possibly-NULL history pointers by design, and CBMC 6 cuts every path after such arithmetic; the obligation is the pointer ARITHMETIC result (size of the referencable history), not a dereference
 * @outside the sequence executor's use of these pointers (c03.seq_exec)
 * @prep extract lib/decompress/zstd_decompress_block.c ZSTD_checkContinuity blk3.inc
 * @link lib/common/zstd_common.c lib/common/error_private.c lib/decompress/zstd_ddict.c
 * @mem check
 * @defs -DZSTD_DECODER_INTERNAL_BUFFER=64
 * @cbmc --unwind 4 --no-pointer-check
 * @timeout 300
 * @memgb 6
 */
#include "v.h"
#include <string.h>
#include "decompress/zstd_decompress.c"
#include "blk3.inc"
size_t ZSTD_decompressBlock_internal(ZSTD_DCtx* dctx, void* dst, size_t dstCapacity, const void* src, size_t srcSize, const streaming_operation streaming)
{ (void)dctx; (void)dst; (void)dstCapacity; (void)src; (void)srcSize; (void)streaming; return ERROR(GENERIC); }
size_t ZSTD_getcBlockSize(const void* src, size_t srcSize, blockProperties_t* bpPtr) { (void)src; (void)srcSize; (void)bpPtr; return ERROR(GENERIC); }
XXH_errorcode XXH64_reset(XXH64_state_t* s, XXH64_hash_t seed) { (void)s; (void)seed; return XXH_OK; }
XXH_errorcode XXH64_update(XXH64_state_t* s, const void* in, size_t len) { (void)s; (void)in; (void)len; return XXH_OK; }
XXH64_hash_t XXH64_digest(const XXH64_state_t* s) { (void)s; return 0; }

static ZSTD_DCtx g_dctx; static char g_old[64], g_new[64], g_dict[16];

void harness(void)
{
    ZSTD_DCtx* const d = &g_dctx;
    size_t const a = nondet_size(), b = nondet_size(), c = nondet_size(), e = nondet_size(), off = nondet_size(), n = nondet_size();
    VASSUME(a <= 64 && b <= a && c <= b && e <= 64 && off >= 16 && off <= 32 && n >= 1 && n <= 32);   /* off >= 16: the virtual start (dst - dictSize) stays inside the arena, where CBMC's pointer offsets behave as on hardware */
    /* stale state of a context that decoded something before */
    d->previousDstEnd = g_old + a; d->prefixStart = g_old + b; d->virtualStart = g_old + c; d->dictEnd = g_old + e;
    if (nondet_bool()) { d->previousDstEnd = NULL; d->prefixStart = NULL; d->virtualStart = NULL; d->dictEnd = NULL; }
    d->format = ZSTD_f_zstd1; d->ddict = NULL; d->dictUses = ZSTD_dont_use;
    {   int const withDict = nondet_bool();
        size_t const dictSize = withDict ? (size_t)(1 + (nondet_uint() & 7)) : 0;
        size_t const r = withDict ? ZSTD_decompressBegin_usingDict(d, g_dict, dictSize) : ZSTD_decompressBegin(d);
        char* const dst = g_new + off;
        VCHECKM(!ZSTD_isError(r), "beginning a frame succeeds");
        ZSTD_checkContinuity(d, dst, n);             /* what every decoding entry point does first with its output buffer */
        {   size_t const inPrefix = (size_t)((const char*)d->prefixStart - (const char*)d->virtualStart);   /* bytes reachable below the prefix */
            size_t const produced = (size_t)(dst - (const char*)d->prefixStart);
            VCHECKM(produced == 0, "a new frame starts with an empty prefix");
            VCHECKM(inPrefix == dictSize, "at the start of a frame the referencable history is exactly the dictionary given for THIS frame (nothing stale from earlier frames)");
            if (withDict) VCHECKM((const char*)d->dictEnd == g_dict + dictSize, "history segment is the dictionary");
            VWITNESS(withDict && dictSize == 5);
            VWITNESS(!withDict && a == 40);
        }
    }
}
