/* @harness c20.offset_to_frame
 * @props C20
 * @tier quick
 * @functions ZSTD_seekTable_offsetToFrameIndex ZSTD_seekTable_getFrameCompressedOffset ZSTD_seekTable_getFrameDecompressedOffset ZSTD_seekTable_getFrameCompressedSize ZSTD_seekTable_getFrameDecompressedSize ZSTD_seekTable_getNumFrames
 * @bounds any monotone seek table with 1..5 frames (zero-sized frames allowed), 64-bit offsets; ANY 64-bit position; any frame index (32 bit) for the accessors; the entries array is EXACTLY tableLen+1 entries (an index one too far leaves the object)
 * @outside tables with more than 5 frames (the search loop is a standard bisection: the bound only limits its depth to 3)
 * @link lib/common/zstd_common.c lib/common/error_private.c
 * @mem native
 * @cbmc --unwind 8
 * @timeout 300
 * @memgb 4
 */
#include "v.h"
#include <string.h>
#include "zstdseek_decompress.c"

void harness(void)
{
    ZSTD_seekTable st; size_t const n = nondet_size(); unsigned i;
    unsigned long long const pos = nondet_u64();
    unsigned const fi = nondet_uint();
    VASSUME(n >= 1 && n <= 5);
    st.entries = (seekEntry_t*)malloc(sizeof(seekEntry_t) * (n + 1)); VASSUME(st.entries);
    st.tableLen = n; st.checksumFlag = nondet_bool();
    for (i = 0; i <= 5; i++) if (i <= n) {
        st.entries[i].cOffset = nondet_u64(); st.entries[i].dOffset = nondet_u64(); st.entries[i].checksum = nondet_uint();
        if (i == 0) VASSUME(st.entries[0].cOffset == 0 && st.entries[0].dOffset == 0);
        else VASSUME(st.entries[i].cOffset >= st.entries[i-1].cOffset && st.entries[i].dOffset >= st.entries[i-1].dOffset);
    }
    {   unsigned const r = ZSTD_seekTable_offsetToFrameIndex(&st, pos);
        if (pos >= st.entries[n].dOffset) VCHECKM(r == n, "position at or beyond the end maps to the frame count");
        else {
            VCHECKM(r < n, "position inside the content maps to an existing frame");
            VCHECKM(st.entries[r].dOffset <= pos && pos < st.entries[r+1].dOffset, "the frame found contains the position");
        }
        VWITNESS(n == 5 && r == 3);
    }
    {   unsigned long long const dsz = ZSTD_seekTable_getFrameDecompressedSize(&st, fi);
        unsigned long long const csz = ZSTD_seekTable_getFrameCompressedSize(&st, fi);
        if (fi < n) {
            VCHECKM(dsz == st.entries[fi+1].dOffset - st.entries[fi].dOffset && csz == st.entries[fi+1].cOffset - st.entries[fi].cOffset, "frame sizes are differences of consecutive offsets");
            VCHECKM(ZSTD_seekTable_getFrameCompressedOffset(&st, fi) == st.entries[fi].cOffset && ZSTD_seekTable_getFrameDecompressedOffset(&st, fi) == st.entries[fi].dOffset, "offset accessors");
        } else {
            VCHECKM(ZSTD_isError((size_t)dsz) && ZSTD_isError((size_t)csz), "accessors refuse a frame index that does not exist");
        }
        VWITNESS(fi == n);
    }
}
