/* @harness c16.cparam_grid
 * @props C16
 * @tier quick
 * @functions ZSTD_cParam_getBounds ZSTD_CCtxParams_setParameter ZSTD_CCtxParams_getParameter ZSTD_cParam_clampBounds ZSTD_cParam_withinBounds
 * @bounds parameter id: every 32-bit int; value: every 32-bit int; prior ZSTD_CCtx_params: every byte arbitrary; second parameter id q (frame condition): every 32-bit int
 * @assume instance st (no ZSTD_MULTITHREAD): prior struct has nbWorkers=jobSize=overlapLog=rsyncable=0 (the only values that build can store); read-back of jobSize/overlapLog/rsyncable not required there
 * @outside persistence of the effect on frames produced afterwards (needs real compression)
 * @link lib/compress/zstd_compress.c lib/common/zstd_common.c lib/common/error_private.c
 * @mem native
 * @cbmc --unwind 4 --unwindset v_fill_nondet.0:400,memcmp.0:400
 * @timeout 240
 * @memgb 3
 * @instance mt -DZSTD_MULTITHREAD
 * @instance st
 */
#include "v.h"
#include <string.h>
#include "zstd_compress_internal.h"

void harness(void)
{
    ZSTD_CCtx_params p, old;
    v_fill_nondet(&p, sizeof p);
#ifndef ZSTD_MULTITHREAD
    /* representation invariant of a single-threaded build: the MT fields are never set */
    VASSUME(p.nbWorkers == 0 && p.jobSize == 0 && p.overlapLog == 0 && p.rsyncable == 0);
#endif
    memcpy(&old, &p, sizeof p);
    {   int const param = nondet_int();
        int const value = nondet_int();
        int const q = nondet_int();
        ZSTD_bounds const b = ZSTD_cParam_getBounds((ZSTD_cParameter)param);
        int qBefore = 0, qAfter = 0;
        size_t const gq0 = ZSTD_CCtxParams_getParameter(&p, (ZSTD_cParameter)q, &qBefore);
        size_t const r = ZSTD_CCtxParams_setParameter(&p, (ZSTD_cParameter)param, value);
        int const inBounds = !ZSTD_isError(b.error) && value >= b.lowerBound && value <= b.upperBound;

        /* (1) unknown id: bounds and set both refuse */
        if (ZSTD_isError(b.error)) VCHECKM(ZSTD_isError(r), "parameter without bounds is refused by the setter");
        /* (2) a rejected call changes nothing */
        if (ZSTD_isError(r)) VCHECKM(memcmp(&p, &old, sizeof p) == 0, "rejected set leaves the parameter struct byte-identical");
        /* (3) inside the advertised range => accepted */
        if (inBounds) VCHECKM(!ZSTD_isError(r), "value inside advertised bounds is accepted");
        if (!ZSTD_isError(r)) {
            int got = 0;
            size_t const g = ZSTD_CCtxParams_getParameter(&p, (ZSTD_cParameter)param, &got);
            VCHECKM(!ZSTD_isError(b.error), "accepted parameter has bounds");
#ifndef ZSTD_MULTITHREAD
            /* single-threaded build: jobSize/overlapLog/rsyncable accept only 0 and their getter
             * reports parameter_unsupported (documented build limitation, not part of the claim) */
            if (param == ZSTD_c_jobSize || param == ZSTD_c_overlapLog || param == ZSTD_c_rsyncable) { VCHECK(value == 0); return; }
#endif
            VCHECKM(!ZSTD_isError(g), "accepted parameter can be read back");
            /* (4) whatever was stored is inside the advertised range, or the documented 0=default marker */
            VCHECKM((got >= b.lowerBound && got <= b.upperBound) || got == 0, "stored value lies inside the advertised bounds (or is 0 = default)");
            /* (5) in-range values read back unchanged, modulo the documented normalisations */
            if (inBounds) {
                if (param == ZSTD_c_compressionLevel && value == 0) VCHECKM(got == ZSTD_CLEVEL_DEFAULT, "level 0 reads back as the default level");
#ifdef ZSTD_MULTITHREAD
                else if (param == ZSTD_c_jobSize && value != 0 && value < ZSTDMT_JOBSIZE_MIN) VCHECKM(got == ZSTDMT_JOBSIZE_MIN, "small non-zero jobSize is raised to the minimum");
#endif
                else VCHECKM(got == value, "in-range value reads back unchanged");
            } else {
                /* out of range but accepted: documented clamp / boolean normalisation */
                if (b.lowerBound == 0 && b.upperBound == 1) VCHECKM(got == 0 || got == 1, "flag normalised to 0/1");
            }
            /* (6) frame condition: no other parameter changed */
            if (q != param && !ZSTD_isError(gq0)) {
                size_t const gq1 = ZSTD_CCtxParams_getParameter(&p, (ZSTD_cParameter)q, &qAfter);
                VCHECKM(!ZSTD_isError(gq1) && qAfter == qBefore, "setting one parameter leaves every other parameter unchanged");
            }
            VWITNESS(inBounds && param == ZSTD_c_windowLog && value == 27);
            VWITNESS(!inBounds && param == ZSTD_c_compressionLevel);
        }
        VWITNESS(ZSTD_isError(r) && !ZSTD_isError(b.error));
        VWITNESS(ZSTD_isError(b.error));
    }
}
