/* @harness c05.frame_header
 * @props C05 C08 C09
 * @tier quick
 * @functions ZSTD_writeFrameHeader ZSTD_getFrameHeader_advanced ZSTD_frameHeaderSize_internal ZSTD_getDictID_fromFrame ZSTD_getFrameContentSize
 * @bounds windowLog 10..31; pledged source size: every 64-bit value; dictID: every 32-bit value; the three frame-parameter flags: every int; both formats (magic / magicless); destination capacity 0..24 (tail-aligned: any write beyond it leaves the object); cut point k for the proper-prefix check: every k < header size
 * @assume caller contract of the writer: contentSizeFlag is never set together with pledged == ZSTD_CONTENTSIZE_UNKNOWN (asserted in the source, established by ZSTD_compressBegin_internal)
 * @outside frames beyond the header (blocks: c05.frame_chunk); independent third-party parser
 * @link lib/decompress/zstd_decompress.c lib/decompress/zstd_ddict.c lib/common/zstd_common.c lib/common/error_private.c
 * @mem native
 * @cbmc --unwind 70
 * @timeout 300
 * @memgb 4
 */
#include "v.h"
#include <string.h>
#include "compress/zstd_compress.c"

#define CAPMAX 24
static BYTE g_arena[V_SLACK + CAPMAX];

void harness(void)
{
    ZSTD_CCtx_params params;
    U64 const pledged = nondet_u64();
    U32 const dictID = nondet_uint();
    size_t const cap = nondet_size();
    BYTE* dst; size_t r; int i;
    memset(&params, 0, sizeof params);
    params.format = nondet_bool() ? ZSTD_f_zstd1_magicless : ZSTD_f_zstd1;
    params.cParams.windowLog = nondet_uint();
    VASSUME(params.cParams.windowLog >= ZSTD_WINDOWLOG_ABSOLUTEMIN && params.cParams.windowLog <= ZSTD_WINDOWLOG_MAX);
    params.fParams.contentSizeFlag = nondet_int();
    params.fParams.checksumFlag = nondet_int();
    params.fParams.noDictIDFlag = nondet_int();
    /* flags are stored normalised to 0/1 by the setters (c16.cparam_grid) */
    VASSUME(params.fParams.contentSizeFlag == 0 || params.fParams.contentSizeFlag == 1);
    VASSUME(params.fParams.checksumFlag == 0 || params.fParams.checksumFlag == 1);
    VASSUME(params.fParams.noDictIDFlag == 0 || params.fParams.noDictIDFlag == 1);
    VASSUME(!(params.fParams.contentSizeFlag && pledged == ZSTD_CONTENTSIZE_UNKNOWN));
    VASSUME(cap <= CAPMAX);
    memset(g_arena, V_CANARY, sizeof g_arena);
    dst = g_arena + sizeof g_arena - cap;
    r = ZSTD_writeFrameHeader(dst, cap, &params, pledged, dictID);
    for (i = 0; i < V_SLACK; i++) VCHECKM(g_arena[i] == V_CANARY, "nothing written before the destination");
    if (cap < ZSTD_FRAMEHEADERSIZE_MAX) {
        VCHECKM(ZSTD_isError(r), "capacity below the worst-case header size is refused");
        return;
    }
    VCHECKM(!ZSTD_isError(r) && r <= ZSTD_FRAMEHEADERSIZE_MAX && r <= cap, "header written within capacity");
    {   ZSTD_frameHeader zfh;
        size_t const p = ZSTD_getFrameHeader_advanced(&zfh, dst, r, params.format);
        VCHECKM(p == 0, "the emitted header parses completely");
        VCHECKM(zfh.headerSize == r, "parsed header size equals the bytes written");
        VCHECKM(zfh.frameType == ZSTD_frame, "regular frame");
        if (params.fParams.contentSizeFlag) VCHECKM(zfh.frameContentSize == pledged, "content size field tells the truth");
        else VCHECKM(zfh.frameContentSize == ZSTD_CONTENTSIZE_UNKNOWN, "no content size field when not requested");
        VCHECKM(zfh.dictID == (params.fParams.noDictIDFlag ? 0 : dictID), "dictionary ID recorded exactly (or omitted on request)");
        VCHECKM(zfh.checksumFlag == (unsigned)(params.fParams.checksumFlag > 0), "checksum flag recorded");
        {   U64 const encWindow = (U64)1 << params.cParams.windowLog;
            VCHECKM(zfh.windowSize <= encWindow, "declared window never exceeds the compressor's window");
            if (zfh.windowSize != encWindow) VCHECKM(params.fParams.contentSizeFlag && zfh.windowSize == pledged, "smaller declared window only in single-segment mode, equal to the content size");
            VCHECKM(zfh.blockSizeMax == (zfh.windowSize < ZSTD_BLOCKSIZE_MAX ? zfh.windowSize : ZSTD_BLOCKSIZE_MAX), "block size limit follows the declared window");
        }
        {   /* a proper prefix of the header never parses as complete */
            size_t const k = nondet_size();
            ZSTD_frameHeader z2;
            VASSUME(k < r);
            VCHECKM(ZSTD_getFrameHeader_advanced(&z2, dst, k, params.format) != 0, "a proper prefix of the header is not accepted as a header");
        }
        VWITNESS(r == 18);
        VWITNESS(r == 2 && params.format == ZSTD_f_zstd1_magicless);
        VWITNESS(pledged == 65792 && params.fParams.contentSizeFlag);
        VWITNESS(dictID == 256 && !params.fParams.noDictIDFlag);
    }
}
