/* @harness c09.oneshot_frame
 * @props C09 C03 C04 C05
 * @tier thorough
 * @functions ZSTD_decompressFrame ZSTD_frameHeaderSize_internal ZSTD_decodeFrameHeader ZSTD_getFrameHeader_advanced ZSTD_getcBlockSize ZSTD_copyRawBlock ZSTD_setRleBlock
 * @bounds the one-shot frame decoder on ARBITRARY bytes: input size every value 0..NB (= 15; tail-aligned: any over-read leaves the object), every byte arbitrary after the standard magic number, so every frame header descriptor, window descriptor, content-size field, up to 3 blocks of any type, optional checksum - complete, truncated at any byte, or followed by extra bytes; destination capacity every value 0..16 (tail slice); checksum verification on or ignored
 * @bounds decided against a reference frame walk written from doc/zstd_compression_format.md: success only for a complete well-formed frame (a truncated frame, a reserved block type, a wrong content size or - with verification on - a wrong checksum never decode successfully); on success the decoder consumed exactly the frame's bytes (extra bytes untouched), produced exactly the sum of the regenerated block sizes = the content-size field when present, raw blocks copy the source bytes and RLE blocks repeat their byte (arbitrary output index); nothing is written past the destination capacity
 * @assume compressed blocks are decoded by a contract stub of ZSTD_decompressBlock_internal (range-checked; fails or regenerates any size up to the room and the block size limit); XXH64 is uninterpreted (digest arbitrary, update logged); no dictionary
 * @outside the block-size-limit rule (enforced for compressed blocks inside the stubbed block decoder; raw / RLE blocks larger than the limit are accepted by the one-shot path although the streaming path refuses them - such frames are not valid frames, no property covers them); compressed block contents; skippable and legacy frames; multi-frame concatenation (ZSTD_decompressMultiFrame loop); windows above this build's limit
 * @assume LAYOUT MODEL of ZSTD_DCtx (as in c14.dstream_header): a scratch copy of zstd_decompress_internal.h, regenerated from /repo at every run by regexes that must match, in which the entropy tables and the Huffman workspace - touched only by the block decoder, a stub here - are shrunk; the frame layer compiles unchanged against it
 * @prep sed lib/decompress/zstd_decompress_internal.h zdi_small.h "\.\./common/ "
 * @prep sed zdi_small.h zdi_small.h \(1\s*\+\s*\(1\s*<<\s*\(log\)\)\) (110)
 * @prep sed zdi_small.h zdi_small.h hufTable\[HUF_DTABLE_SIZE\(ZSTD_HUFFDTABLE_CAPACITY_LOG\)\] hufTable[2]
 * @prep sed zdi_small.h zdi_small.h workspace\[HUF_DECOMPRESS_WORKSPACE_SIZE_U32\] workspace[2]
 * @prep extract lib/decompress/zstd_decompress_block.c ZSTD_getcBlockSize blkos.inc
 * @link lib/common/zstd_common.c lib/common/error_private.c
 * @backend cadical
 * @mem loop
 * @defs -DZSTD_DECODER_INTERNAL_BUFFER=64
 * @cbmc --unwind 6 --unwindset __builtin_memset.0:60,__builtin_memcpy.0:60,__builtin_memmove.0:18,__builtin_memmove.1:18,harness.0:20,harness.1:26,ref_walk.0:10,ref_walk.1:6
 * @timeout 2400
 * @memgb 8
 */
#include "v.h"
#include <string.h>
#include "zdi_small.h"      /* defines the include guard of the real header */
#include "decompress/zstd_decompress.c"
#include "decompress/zstd_ddict.c"
#include "blkos.inc"

#define NB 15
#define DCAP 16
static BYTE g_arena[V_SLACK + NB];
static BYTE g_dstArena[V_SLACK + DCAP];
static BYTE* g_dst; static size_t g_dcap;
static int g_cblocks; static size_t g_cRegen[4]; static size_t g_cOff[4]; static size_t g_cSrcSize[4];
static U64 g_digest; static U64 g_xxhLen;
size_t ZSTD_decompressBlock_internal(ZSTD_DCtx* dctx, void* dst, size_t dstCapacity, const void* src, size_t srcSize, const streaming_operation streaming)
{
    size_t const r = nondet_size(); int const i = g_cblocks;
    (void)streaming;
    VCHECKM(dstCapacity == 0 || ((BYTE*)dst >= g_dst && (BYTE*)dst + dstCapacity <= g_dst + g_dcap), "block decoder is given a destination inside the caller's buffer");
    VCHECKM(V_R_OK(src, srcSize) || srcSize == 0, "block decoder is given a readable source");
    g_cblocks++;
    if (nondet_bool()) return ERROR(corruption_detected);
    VASSUME(r <= dstCapacity && r <= dctx->fParams.blockSizeMax);
    if (i < 4) { g_cRegen[i] = r; g_cOff[i] = (size_t)((BYTE*)dst - g_dst); g_cSrcSize[i] = srcSize; }
    return r;
}
void ZSTD_checkContinuity(ZSTD_DCtx* dctx, const void* dst, size_t dstSize) { (void)dctx; (void)dst; (void)dstSize; }
XXH_errorcode XXH64_reset(XXH64_state_t* s, XXH64_hash_t seed) { (void)s; (void)seed; g_xxhLen = 0; return XXH_OK; }
XXH_errorcode XXH64_update(XXH64_state_t* s, const void* in, size_t len) { (void)s; (void)in; g_xxhLen += len; return XXH_OK; }
XXH64_hash_t XXH64_digest(const XXH64_state_t* s) { (void)s; return g_digest; }

/* reference walk of ONE standard frame, from the format document. returns 0 if the bytes are not a complete frame */
typedef struct { int ok; size_t size; U64 fcs; int hasFcs; U64 blockMax; U64 minRegen; unsigned nbBlocks, nbCompressed; int checksum; int tooBig; U64 rawRleRegen; unsigned cSizes[4]; unsigned bType[4]; size_t bSrc[4]; unsigned bSz[4]; } ref_t;
static ref_t ref_walk(const BYTE* p, size_t n)
{
    ref_t r; size_t pos = 0; unsigned fhd, fcsId, single, dictIdSz; U64 window = 0; int b;
    memset(&r, 0, sizeof r);
    if (n < 5) return r;
    if (!(p[0] == 0x28 && p[1] == 0xB5 && p[2] == 0x2F && p[3] == 0xFD)) return r;
    fhd = p[4]; pos = 5;
    fcsId = fhd >> 6; single = (fhd >> 5) & 1; dictIdSz = fhd & 3; if (dictIdSz == 3) dictIdSz = 4;
    if (fhd & 8) return r;                                     /* reserved bit */
    if (!single) { unsigned wd; if (pos >= n) return r; wd = p[pos++];
        {   unsigned const wlog = 10 + (wd >> 3); if (wlog > 31) return r;       /* this build's window limit */
            window = (U64)1 << wlog; window += (window >> 3) * (wd & 7); } }
    if (pos + dictIdSz > n) return r; pos += dictIdSz;
    {   unsigned const fcsSz = fcsId == 0 ? single : (1u << fcsId);
        unsigned k; U64 v = 0;
        if (pos + fcsSz > n) return r;
        for (k = 0; k < 8; k++) if (k < fcsSz) v |= (U64)p[pos + k] << (8 * k);
        if (fcsId == 1) v += 256;
        r.hasFcs = fcsSz != 0; r.fcs = v; pos += fcsSz;
        if (single) window = v;
    }
    r.blockMax = window < (128 << 10) ? window : (128 << 10);
    for (b = 0; b < 4; b++) {
        U32 h; unsigned type; U32 sz; size_t payload;
        if (pos + 3 > n) return r;
        h = p[pos] | ((U32)p[pos+1] << 8) | ((U32)p[pos+2] << 16); pos += 3;
        type = (h >> 1) & 3; sz = h >> 3;
        if (type == 3) return r;
        payload = (type == 1) ? 1 : sz;
        if (pos + payload > n) return r;
        r.bType[b] = type; r.bSrc[b] = pos; r.bSz[b] = sz;
        pos += payload; r.nbBlocks++;
        if (type == 2) { if (r.nbCompressed < 4) r.cSizes[r.nbCompressed] = sz; r.nbCompressed++; if (sz > r.blockMax) r.tooBig = 1; } else { r.rawRleRegen += sz; if (sz > r.blockMax) r.tooBig = 1; }
        if (type != 2) r.minRegen += (sz < r.blockMax ? sz : r.blockMax);   /* a block announcing more than the block size limit is refused by the decoder: the bound only matters up to it */
        if (h & 1) {
            r.checksum = (fhd & 4) != 0;
            if (fhd & 4) { if (pos + 4 > n) return r; pos += 4; }
            r.ok = 1; r.size = pos; return r;
        }
    }
    return r;    /* more than 4 blocks cannot fit in NB bytes */
}


static ZSTD_DCtx g_dctx;
void harness(void)
{
    ZSTD_DCtx* const d = &g_dctx; size_t const n = nondet_size(), cap = nondet_size(); const BYTE* src; const void* sp; size_t rem, r; int i;
    VASSUME(n <= NB && cap <= DCAP);
    src = g_arena + sizeof g_arena - n;
    for (i = 0; i < NB; i++) g_arena[V_SLACK + i] = nondet_uchar();
    if (n >= 4) { g_arena[sizeof g_arena - n + 0] = 0x28; g_arena[sizeof g_arena - n + 1] = 0xB5; g_arena[sizeof g_arena - n + 2] = 0x2F; g_arena[sizeof g_arena - n + 3] = 0xFD; }
    g_dst = g_dstArena + sizeof g_dstArena - cap; g_dcap = cap;
    for (i = 0; i < DCAP; i++) g_dstArena[V_SLACK + i] = 0xEE;
    g_digest = nondet_u64();
    d->format = ZSTD_f_zstd1; d->maxWindowSize = ZSTD_MAXWINDOWSIZE_DEFAULT; d->forceIgnoreChecksum = nondet_bool() ? ZSTD_d_ignoreChecksum : ZSTD_d_validateChecksum;
    d->ddict = NULL; d->dictID = 0; d->maxBlockSizeParam = 0; d->isFrameDecompression = 1;
    sp = src; rem = n;
    r = ZSTD_decompressFrame(d, g_dst, cap, &sp, &rem);
    {   ref_t const ref = ref_walk(src, n);
        if (!ZSTD_isError(r)) {
            size_t regenC = 0; int k; size_t const consumed = (size_t)((const BYTE*)sp - src);
            VCHECKM(ref.ok, "success only for a complete, well-formed frame: a truncated or malformed frame never decodes");
            VCHECKM(consumed == ref.size && rem == n - ref.size, "the decoder consumed exactly the frame (bytes after it are left to the caller)");
            VCHECKM((int)ref.nbCompressed == g_cblocks, "every compressed block was handed to the block decoder once");
            for (k = 0; k < 4; k++) if (k < g_cblocks) { regenC += g_cRegen[k]; VCHECKM(g_cSrcSize[k] == ref.cSizes[k], "the block decoder gets exactly the block's compressed bytes"); }
            VCHECKM(r == ref.rawRleRegen + regenC && r <= cap, "decoded size = sum of the regenerated block sizes, within the capacity");
            if (ref.hasFcs) VCHECKM(r == ref.fcs, "with a content-size field, success implies exactly that many bytes");
            if (ref.checksum) {
                if (d->forceIgnoreChecksum == ZSTD_d_validateChecksum) VCHECKM(g_xxhLen == r, "with verification on, the checksum covers exactly the regenerated bytes");
                if (d->forceIgnoreChecksum == ZSTD_d_validateChecksum) VCHECKM(MEM_readLE32(src + ref.size - 4) == (U32)g_digest, "with verification on, success implies the stored checksum equals the low 32 bits of the digest");
            }
            {   /* content: an arbitrary output byte produced by a raw or RLE block equals the byte the format says */
                size_t const j = nondet_size(); size_t o = 0; int b, c = 0;
                VASSUME(j < r);
                for (b = 0; b < 4; b++) if ((unsigned)b < ref.nbBlocks) {
                    size_t const g = (ref.bType[b] == 2) ? g_cRegen[c] : ref.bSz[b];
                    if (ref.bType[b] == 2) { VCHECKM(g_cOff[c] == o, "a compressed block is decoded at the current output position"); c++; }
                    else if (j >= o && j < o + g) VCHECKM(g_dst[j] == (ref.bType[b] == 0 ? src[ref.bSrc[b] + (j - o)] : src[ref.bSrc[b]]), "raw blocks copy their bytes, RLE blocks repeat their byte");
                    o += g;
                }
            }
            VWITNESS(ref.nbBlocks == 3 && g_cblocks == 1);
            VWITNESS(ref.nbBlocks == 2 && ref.nbCompressed == 0 && r > 2);
            VWITNESS(rem > 0);
        } else {
            VWITNESS(ref.ok && !ref.tooBig && g_cblocks == 0 && !ref.checksum && (!ref.hasFcs || ref.fcs == ref.rawRleRegen));    /* well-formed but the capacity was too small */
            VWITNESS(n == NB);
        }
    }
}
