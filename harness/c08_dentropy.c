/* @harness c08.dentropy_glue
 * @props C08 C03
 * @tier quick
 * @functions ZSTD_loadDEntropy ZSTD_loadCEntropy ZSTD_dictNCountRepeat
 * @bounds dictionary of 8..72 arbitrary bytes (16 readable bytes behind it); the entropy-table parsers return ANY result allowed by their contracts (consumed length 1..available, any last symbol <= requested, any table log 5..15, or an error) and - being the same descriptions - the SAME result to the compression side and to the decompression side
 * @bounds decided: (differential) the decoder's dictionary loader and the compressor's accept exactly the same dictionaries, locate the content at the same offset and read the same three repeat offsets; (absolute) decoder side: every range handed to a parser lies inside the dictionary, table logs above the format limits are refused, every accepted repeat offset is non-zero and not larger than the dictionary content, the tables are built into the right members with their own base/bits tables
 * @assume HUF_readDTableX2_wksp / HUF_readCTable, FSE_readNCount, ZSTD_buildFSETable and FSE_buildCTable_wksp are contract stubs (FSE_readNCount's contract is the post-condition proved by c03.ncount; the Huffman readers' acceptance is c04.huf_tables'); the two Huffman readers are assumed to accept the same descriptions with the same length; ZSTD_loadDEntropy's text is re-extracted from /repo at every run
 * @outside table contents (real FSE/Huffman construction on dictionary tables); raw-content dictionaries; ZSTD_decompress_insertDictionary's window set-up (c03.begin_history)
 * @prep extract lib/decompress/zstd_decompress.c ZSTD_loadDEntropy dent.inc
 * @link lib/common/zstd_common.c lib/common/error_private.c
 * @mem native
 * @cbmc --unwind 80
 * @timeout 900
 * @memgb 6
 */
#include "v.h"
#include <string.h>
#include "compress/zstd_compress.c"
#include "decompress/zstd_decompress_internal.h"
#include "decompress/zstd_decompress_block.h"

#define DMAX 72
#define BACK 16
static BYTE g_arena[V_SLACK + DMAX + BACK];
static const BYTE* g_dict; static size_t g_dictSize;
static ZSTD_compressedBlockState_t g_bs;
static ZSTD_entropyDTables_t g_ent;
static U64 g_wksp[HUF_WORKSPACE_SIZE / 8 + 1];

/* one oracle per description: [0] Huffman, [1..3] offset / match-length / literal-length codes */
static struct { int chosen; int err; size_t size; unsigned maxSV, log; const void* src; size_t avail; } g_d[4];
static int g_side;          /* 0 = compression side running, 1 = decompression side running */
static int g_idx[2];        /* next FSE description per side */
static int g_built[3];      /* decoder tables built: OF, ML, LL */

static void range_inside_dict(const void* p, size_t n) {
    VCHECKM((const BYTE*)p >= g_dict && (const BYTE*)p + n <= g_dict + g_dictSize, "entropy parser is handed a range inside the dictionary");
}
/* same description => same answer on both sides */
static size_t oracle(int k, const void* src, size_t avail, unsigned maxRequested, unsigned* maxSV, unsigned* log)
{
    if (!g_d[k].chosen) {
        size_t const r = nondet_size(); unsigned const m = nondet_uint(), t = nondet_uint();
        g_d[k].chosen = 1; g_d[k].err = nondet_bool() || avail == 0; g_d[k].src = src; g_d[k].avail = avail;    /* nothing to parse: every parser fails */
        VASSUME(g_d[k].err || (r >= 1 && r <= avail)); VASSUME(m <= maxRequested && t >= 5 && t <= 15);
        g_d[k].size = r; g_d[k].maxSV = m; g_d[k].log = t;
    } else {
        VCHECKM(g_d[k].src == src && g_d[k].avail == avail, "both sides look for this description at the same place with the same room");
    }
    if (g_d[k].err) return ERROR(corruption_detected);
    if (maxSV) *maxSV = g_d[k].maxSV;
    if (log) *log = g_d[k].log;
    return g_d[k].size;
}
size_t HUF_readCTable(HUF_CElt* CTable, unsigned* maxSymbolValuePtr, const void* src, size_t srcSize, unsigned* hasZeroWeights)
{
    (void)CTable; range_inside_dict(src, srcSize);
    *hasZeroWeights = nondet_bool();
    return oracle(0, src, srcSize, 255, maxSymbolValuePtr, NULL);
}
size_t HUF_readDTableX2_wksp(HUF_DTable* DTable, const void* src, size_t srcSize, void* workSpace, size_t wkspSize, int flags)
{
    (void)flags; range_inside_dict(src, srcSize);
    VCHECKM(DTable == g_ent.hufTable, "literals table is built into the dictionary's Huffman table");
    VCHECKM((BYTE*)workSpace >= (BYTE*)&g_ent && (BYTE*)workSpace + wkspSize <= (BYTE*)&g_ent + sizeof g_ent && wkspSize >= HUF_DECOMPRESS_WORKSPACE_SIZE
            && ((BYTE*)workSpace + wkspSize <= (BYTE*)g_ent.hufTable || (BYTE*)workSpace >= (BYTE*)g_ent.hufTable + sizeof g_ent.hufTable),
            "Huffman workspace lies inside the entropy struct, is large enough and does not cover the table being built");
    return oracle(0, src, srcSize, 255, NULL, NULL);
}
size_t FSE_readNCount(short* normalizedCounter, unsigned* maxSVPtr, unsigned* tableLogPtr, const void* headerBuffer, size_t hbSize)
{
    int const k = 1 + g_idx[g_side]++; unsigned i;
    range_inside_dict(headerBuffer, hbSize);
    VCHECKM(k <= 3, "three sequence-table descriptions per side");
    if (k > 3) return ERROR(GENERIC);
    {   unsigned const req = *maxSVPtr;
        size_t const r = oracle(k, headerBuffer, hbSize, req, maxSVPtr, tableLogPtr);
        VCHECKM(req == (k == 1 ? (unsigned)MaxOff : k == 2 ? (unsigned)MaxML : (unsigned)MaxLL), "description k is read with the alphabet limit of its code type");
        if (!ERR_isError(r)) for (i = 0; i <= MaxML; i++) if (i <= *maxSVPtr) normalizedCounter[i] = (short)nondet_ushort();
        return r;
    }
}
size_t FSE_buildCTable_wksp(FSE_CTable* ct, const short* normalizedCounter, unsigned maxSymbolValue, unsigned tableLog, void* workSpace, size_t wkspSize)
{
    (void)ct; (void)normalizedCounter; (void)maxSymbolValue; (void)tableLog; (void)workSpace; (void)wkspSize;
    return 0;      /* with HUF_WORKSPACE_SIZE bytes of workspace and a log within the format limit the real builder cannot fail */
}
void ZSTD_buildFSETable(ZSTD_seqSymbol* dt, const short* normalizedCounter, unsigned maxSymbolValue,
                        const U32* baseValue, const U8* nbAdditionalBits, unsigned tableLog, void* wksp, size_t wkspSize, int bmi2)
{
    int const which = (dt == g_ent.OFTable) ? 0 : (dt == g_ent.MLTable) ? 1 : (dt == g_ent.LLTable) ? 2 : -1;
    (void)normalizedCounter; (void)bmi2;
    VCHECKM(which >= 0, "a sequence table is built into one of the three members");
    if (which < 0) return;
    g_built[which]++;
    VCHECKM(tableLog <= (which == 0 ? (unsigned)OffFSELog : which == 1 ? (unsigned)MLFSELog : (unsigned)LLFSELog), "table log within the member's capacity");
    VCHECKM(maxSymbolValue <= (which == 0 ? (unsigned)MaxOff : which == 1 ? (unsigned)MaxML : (unsigned)MaxLL), "alphabet within the code type");
    VCHECKM(baseValue == (which == 0 ? OF_base : which == 1 ? ML_base : LL_base) && nbAdditionalBits == (which == 0 ? OF_bits : which == 1 ? ML_bits : LL_bits), "each code type is built with its own base / extra-bits tables");
    VCHECKM(wksp == (void*)g_ent.workspace && wkspSize == sizeof g_ent.workspace, "table builder workspace is the entropy struct's");
}
#include "dent.inc"

void harness(void)
{
    size_t const dictSize = nondet_size(); size_t rc, rd; unsigned i;
    VASSUME(dictSize >= 8 && dictSize <= DMAX);
    g_dict = g_arena + sizeof g_arena - BACK - dictSize; g_dictSize = dictSize;
    for (i = 0; i < DMAX; i++) g_arena[V_SLACK + i] = nondet_uchar();
    g_side = 1; rd = ZSTD_loadDEntropy(&g_ent, g_dict, dictSize);
    g_side = 0; rc = ZSTD_loadCEntropy(&g_bs, g_wksp, g_dict, dictSize);
    VCHECKM(ZSTD_isError(rd) == ZSTD_isError(rc), "the decoder and the compressor accept exactly the same dictionaries");
    if (!ZSTD_isError(rd)) {
        size_t const content = dictSize - rd;
        VCHECKM(rd >= 8 + 1 + 3 + 12 && rd <= dictSize, "entropy section lies inside the dictionary");
        VCHECKM(g_built[0] == 1 && g_built[1] == 1 && g_built[2] == 1, "each of the three sequence tables is built exactly once");
        for (i = 0; i < 3; i++) VCHECKM(g_ent.rep[i] != 0 && g_ent.rep[i] <= content, "repeat offsets accepted only if non-zero and within the dictionary content");
        if (!ZSTD_isError(rc)) {
            VCHECKM(rc == rd, "both sides locate the dictionary content at the same offset");
            for (i = 0; i < 3; i++) VCHECKM(g_ent.rep[i] == g_bs.rep[i], "both sides start from the same repeat offsets");
        }
        VWITNESS(content == 1);
        VWITNESS(content > 30);
    } else {
        VWITNESS(g_idx[1] == 3 && !g_d[3].err);       /* rejected for its repeat offsets or sizes only */
        VWITNESS(dictSize == 8);
    }
}
