/* @harness c03.seq_hdr
 * @props C03 C04 C01
 * @tier quick
 * @functions ZSTD_decodeSeqHeaders ZSTD_buildSeqTable ZSTD_buildSeqTable_rle
 * @bounds sequences-section header on ARBITRARY bytes: section size every value 0..NB (= 8; source followed by 2 arbitrary bytes: an over-read of more than 2 bytes leaves the object, a shorter one makes the result depend on them and fails the comparison), every byte arbitrary - so every sequence-count encoding (1, 2 and 3-byte forms), every symbol-compression-modes byte (4 modes x 3 tables, reserved bits), every RLE symbol, with or without tables left by a previous block (repeat mode allowed or not), cold dictionary flag any
 * @bounds decided against a reference parser written from doc/zstd_compression_format.md (Sequences_Section_Header): same accept/reject decision, same number of sequences, same header length; each of the three table pointers ends up at the predefined table / the block's own table / unchanged (repeat) exactly as the mode says; RLE tables carry the base value and extra bits of the given symbol; memory safety on every path
 * @assume FSE_readNCount and ZSTD_buildFSETable are contract stubs (FSE_readNCount's contract is the post-condition proved by c03.ncount: consumes 1..available bytes, last symbol <= requested, any table log); the stubs check the ranges they are handed; the definition line of ZSTD_buildFSETable is renamed in a scratch copy of zstd_decompress_block.c so that its callers reach the stub
 * @outside an over-read of at most 2 bytes whose value does not influence any result (hidden by the 2 slack bytes that keep the decoder's own `ip+2 > iend` tests inside the object; checked: a mutated end test of this kind is NOT caught here); FSE table construction itself; the sequence bitstream after the header (c01.seq_codec)
 * @prep rename lib/decompress/zstd_decompress_block.c ZSTD_buildFSETable ZSTD_buildFSETable_REAL zdb_seq.c
 * @link lib/common/zstd_common.c lib/common/error_private.c
 * @mem native
 * @defs -DZSTD_DECODER_INTERNAL_BUFFER=64
 * @cbmc --unwind 70
 * @timeout 600
 * @memgb 8
 */
#include "v.h"
#include <string.h>
#include "zdb_seq.c"

#define NB 8
#define BACK 2     /* the decoder's own end tests form ip+2 one byte beyond a 1-byte section; CBMC cuts paths on pointers formed outside the object. A read of these two bytes would make the result depend on them and fail the comparison with the reference */
static BYTE g_arena[V_SLACK + NB + BACK];
static ZSTD_DCtx g_dctx;
static const BYTE* g_src; static size_t g_srcSize;

/* ---- contract stubs ---- */
static int g_nc; static size_t g_ncSize[3]; static unsigned g_ncLog[3], g_ncMax[3]; static int g_ncErr[3]; static const void* g_ncSrc[3]; static size_t g_ncAvail[3];
size_t FSE_readNCount(short* normalizedCounter, unsigned* maxSVPtr, unsigned* tableLogPtr, const void* headerBuffer, size_t hbSize)
{
    int const c = g_nc++; size_t const r = nondet_size(); unsigned const m = nondet_uint(), t = nondet_uint(); unsigned i;
    VCHECKM((const BYTE*)headerBuffer >= g_src && (const BYTE*)headerBuffer + hbSize <= g_src + g_srcSize, "table description reader is handed a range inside the section");
    VCHECKM(c < 3, "at most three table descriptions per header");
    if (c >= 3) return ERROR(GENERIC);
    g_ncSrc[c] = headerBuffer; g_ncAvail[c] = hbSize;
    g_ncErr[c] = nondet_bool() || hbSize == 0;
    if (g_ncErr[c]) return ERROR(corruption_detected);
    VASSUME(r >= 1 && r <= hbSize && m <= *maxSVPtr && t >= 5 && t <= 15);
    g_ncSize[c] = r; g_ncLog[c] = t; g_ncMax[c] = m;
    *maxSVPtr = m; *tableLogPtr = t;
    for (i = 0; i <= MaxSeq; i++) if (i <= m) normalizedCounter[i] = (short)nondet_ushort();
    return r;
}
static int g_built; static ZSTD_seqSymbol* g_builtDt[3]; static unsigned g_builtLog[3];
void ZSTD_buildFSETable(ZSTD_seqSymbol* dt, const short* normalizedCounter, unsigned maxSymbolValue,
                        const U32* baseValue, const U8* nbAdditionalBits, unsigned tableLog, void* wksp, size_t wkspSize, int bmi2)
{
    (void)normalizedCounter; (void)maxSymbolValue; (void)baseValue; (void)nbAdditionalBits; (void)bmi2;
    VCHECKM(wksp == (void*)g_dctx.workspace && wkspSize == sizeof g_dctx.workspace, "table builder gets the context's workspace");
    if (g_built < 3) { g_builtDt[g_built] = dt; g_builtLog[g_built] = tableLog; }
    g_built++;
}

/* ---- reference parser (format document) ---- */
typedef struct { int ok; int nbSeq; size_t size; int mode[3]; BYTE rleSym[3]; } ref_t;
static ref_t ref_parse(const BYTE* p, size_t n, int repeatAllowed)
{
    ref_t r; size_t pos; int t, nc = 0; static const unsigned maxSym[3] = { MaxLL, MaxOff, MaxML }; static const unsigned maxLog[3] = { LLFSELog, OffFSELog, MLFSELog };
    memset(&r, 0, sizeof r);
    if (n < 1) return r;
    if (p[0] < 128) { r.nbSeq = p[0]; pos = 1; }
    else if (p[0] < 255) { if (n < 2) return r; r.nbSeq = ((p[0] - 128) << 8) + p[1]; pos = 2; }
    else { if (n < 3) return r; r.nbSeq = p[1] + (p[2] << 8) + 0x7F00; pos = 3; }
    if (r.nbSeq == 0) { r.ok = (pos == n); r.size = pos; return r; }      /* this implementation refuses extra bytes after an empty header */
    if (pos + 1 > n) return r;
    if (p[pos] & 3) return r;
    r.mode[0] = p[pos] >> 6; r.mode[1] = (p[pos] >> 4) & 3; r.mode[2] = (p[pos] >> 2) & 3;
    pos++;
    for (t = 0; t < 3; t++) {
        switch (r.mode[t]) {
        case 0: break;                                                              /* predefined */
        case 1: if (pos >= n) return r; if (p[pos] > maxSym[t]) return r; r.rleSym[t] = p[pos]; pos++; break;
        case 3: if (!repeatAllowed) return r; break;
        default:                                                                    /* FSE-compressed description: the stub's answer for this table */
            if (nc >= 3 || g_ncErr[nc]) return r;
            if (g_ncLog[nc] > maxLog[t]) return r;
            pos += g_ncSize[nc]; nc++;
        }
    }
    r.ok = 1; r.size = pos; return r;
}

void harness(void)
{
    ZSTD_DCtx* const dctx = &g_dctx; size_t const srcSize = nondet_size(); size_t r; int nbSeq = -1; unsigned i;
    static const ZSTD_seqSymbol prevLL[2], prevOF[2], prevML[2];
    VASSUME(srcSize <= NB);
    g_src = g_arena + sizeof g_arena - BACK - srcSize; g_srcSize = srcSize;
    for (i = 0; i < NB + BACK; i++) g_arena[V_SLACK + i] = nondet_uchar();
    dctx->fseEntropy = nondet_bool(); dctx->ddictIsCold = nondet_bool();
    dctx->LLTptr = prevLL; dctx->OFTptr = prevOF; dctx->MLTptr = prevML;        /* tables left by the previous block / dictionary */
    r = ZSTD_decodeSeqHeaders(dctx, &nbSeq, g_src, srcSize);
    {   ref_t const ref = ref_parse(g_src, srcSize, (int)dctx->fseEntropy);
        VCHECKM(ZSTD_isError(r) == !ref.ok, "sequences-section header accepted exactly when the format document says it is well-formed (and fits)");
        if (!ZSTD_isError(r)) {
            const ZSTD_seqSymbol* const got[3] = { dctx->LLTptr, dctx->OFTptr, dctx->MLTptr };
            const ZSTD_seqSymbol* const own[3] = { dctx->entropy.LLTable, dctx->entropy.OFTable, dctx->entropy.MLTable };
            const ZSTD_seqSymbol* const def[3] = { LL_defaultDTable, OF_defaultDTable, ML_defaultDTable };
            const ZSTD_seqSymbol* const prev[3] = { prevLL, prevOF, prevML };
            static const U32* const base[3] = { LL_base, OF_base, ML_base }; static const U8* const bits[3] = { LL_bits, OF_bits, ML_bits };
            int t;
            VCHECKM(nbSeq == ref.nbSeq && r == ref.size && r <= srcSize, "number of sequences and header length as specified");
            if (nbSeq > 0) for (t = 0; t < 3; t++) {
                if (ref.mode[t] == 0) VCHECKM(got[t] == def[t], "predefined mode selects the predefined table");
                else if (ref.mode[t] == 3) VCHECKM(got[t] == prev[t], "repeat mode keeps the previous table");
                else {
                    VCHECKM(got[t] == own[t], "RLE / compressed mode selects the block's own table");
                    if (ref.mode[t] == 1) {
                        const ZSTD_seqSymbol_header* const h = (const ZSTD_seqSymbol_header*)(const void*)own[t];
                        VCHECKM(h->tableLog == 0 && own[t][1].nbBits == 0 && own[t][1].nextState == 0 && own[t][1].baseValue == base[t][ref.rleSym[t]] && own[t][1].nbAdditionalBits == bits[t][ref.rleSym[t]],
                                "RLE table: one cell, zero state bits, base value and extra bits of the given symbol");
                    }
                }
            } else VCHECKM(dctx->LLTptr == prevLL && dctx->OFTptr == prevOF && dctx->MLTptr == prevML, "an empty sequences section leaves the tables alone");
            VWITNESS(nbSeq == 0x7F00 + 1);
            VWITNESS(nbSeq > 0 && ref.mode[0] == 1 && ref.mode[1] == 2 && ref.mode[2] == 3);
            VWITNESS(g_built == 3);
        }
        VWITNESS(ZSTD_isError(r) && srcSize == NB);
    }
}
