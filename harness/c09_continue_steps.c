/* @harness c09.continue_step
 * @props C09 C02 C10 C03
 * @tier quick
 * @functions ZSTD_decompressContinue ZSTD_nextSrcSizeToDecompressWithInputSize ZSTD_decodeFrameHeader ZSTD_getFrameHeader_advanced ZSTD_frameHeaderSize_internal ZSTD_getcBlockSize ZSTD_checkContinuity ZSTD_copyRawBlock ZSTD_setRleBlock
 * @bounds ONE call from an ARBITRARY decoder state: stage (all 8), expected, headerSize, block type, rleSize, decodedSize, processedCSize, frame parameters (content size, checksum flag, blockSizeMax, dictID), validateChecksum/forceIgnoreChecksum, format, history pointers; input: srcSize bytes (0..24, tail-aligned) of arbitrary content; output capacity 0..24 (tail-aligned)
 * @assume stage invariant: expected > 0 at frame start (5 or 1 bytes: what ZSTD_decompressBegin sets); headerSize in 2..18 and > already loaded bytes in decodeFrameHeader; expected <= 8 in decodeSkippableHeader; blockSizeMax <= 128 KiB; validateChecksum == (checksumFlag && !forceIgnoreChecksum) once the header is decoded
 * @assume ZSTD_decompressBlock_internal is a contract stub (error, or any size <= dstCapacity); XXH64 is uninterpreted (digest = arbitrary fixed 64-bit value)
 * @assume built with the library's own size knob ZSTD_DECODER_INTERNAL_BUFFER=64 (literal scratch buffer inside the context: 96 bytes instead of 64 KiB; irrelevant to the frame layer, keeps the encoding of the 160 KB context tractable)
 * @assume memory copies are range-checked and leave their destination unchanged (check-only model); the destinations that are read back (headerBuffer, frame parameters) are arbitrary beforehand, so every real content is covered; obligations never depend on copied payload
 * @outside real compressed-block payloads inside the step; multi-call accounting (follows by induction over calls from the step obligations)
 * @prep extract lib/decompress/zstd_decompress_block.c ZSTD_getcBlockSize,ZSTD_checkContinuity blk.inc
 * @link lib/common/zstd_common.c lib/common/error_private.c lib/decompress/zstd_ddict.c
 * @mem check
 * @defs -DZSTD_DECODER_INTERNAL_BUFFER=64
 * @cbmc --unwind 4 --unwindset v_fill_nondet.0:30,harness.0:20
 * @timeout 200
 * @memgb 4
 */
#include "v.h"
#include <string.h>
#include "decompress/zstd_decompress.c"
#include "blk.inc"

#define NMAX 24
static ZSTD_DCtx g_dctx;
static BYTE g_arena[V_SLACK + NMAX + NMAX];   /* one arena: dst slice then src slice */
static unsigned long long g_digest;
static unsigned g_digestCalls;

/* ---- stubs (part of the claim) ---- */
XXH_errorcode XXH64_reset(XXH64_state_t* s, XXH64_hash_t seed) { (void)s; (void)seed; return XXH_OK; }
XXH_errorcode XXH64_update(XXH64_state_t* s, const void* in, size_t len) { (void)s; (void)in; (void)len; return XXH_OK; }
XXH64_hash_t XXH64_digest(const XXH64_state_t* s) { (void)s; g_digestCalls++; return g_digest; }
size_t ZSTD_decompressBlock_internal(ZSTD_DCtx* dctx, void* dst, size_t dstCapacity, const void* src, size_t srcSize, const streaming_operation streaming)
{
    size_t r = nondet_size();
    (void)dctx; (void)src; (void)srcSize; (void)streaming; (void)dst;
    if (nondet_bool()) return ERROR(corruption_detected);
    VASSUME(r <= dstCapacity);
    return r;
}

void harness(void)
{
    ZSTD_DCtx* const d = &g_dctx;
    size_t const srcSize = nondet_size(), cap = nondet_size();
    BYTE* dst; const BYTE* src;
    VASSUME(srcSize <= NMAX && cap <= NMAX);
    dst = g_arena + V_SLACK + (NMAX - cap);            /* dst = [.., V_SLACK+NMAX) */
    src = g_arena + sizeof g_arena - srcSize;          /* src = tail */
    v_fill_nondet(g_arena + V_SLACK + NMAX, NMAX);
    g_digest = nondet_u64();
    /* arbitrary decoder state */
    { unsigned const st = nondet_uint(); VASSUME(st <= ZSTDds_skipFrame); d->stage = (ZSTD_dStage)st; }   /* (range assumed on the unsigned: CBMC and gcc disagree on enum signedness) */
    d->expected = nondet_size();
    d->headerSize = nondet_size();
    { unsigned const bt = nondet_uint(); VASSUME(bt <= bt_reserved); d->bType = (blockType_e)bt; }
    d->rleSize = nondet_size();
    d->decodedSize = nondet_u64();  d->processedCSize = nondet_u64();
    VASSUME(d->decodedSize < ((U64)1 << 62) && d->processedCSize < ((U64)1 << 62));   /* 64-bit byte counters do not wrap in practice */
    d->fParams.frameContentSize = nondet_u64();
    d->fParams.checksumFlag = nondet_uint();  VASSUME(d->fParams.checksumFlag <= 1);
    d->fParams.blockSizeMax = nondet_uint();  VASSUME(d->fParams.blockSizeMax <= ZSTD_BLOCKSIZE_MAX);
    d->fParams.dictID = nondet_uint();  d->dictID = nondet_uint();
    d->forceIgnoreChecksum = nondet_bool() ? ZSTD_d_ignoreChecksum : ZSTD_d_validateChecksum;
    d->format = nondet_bool() ? ZSTD_f_zstd1_magicless : ZSTD_f_zstd1;
    d->validateChecksum = nondet_uint();
    d->refMultipleDDicts = ZSTD_rmd_refSingleDDict;  d->ddictSet = NULL;
    { int hb; for (hb = 0; hb < ZSTD_FRAMEHEADERSIZE_MAX; hb++) d->headerBuffer[hb] = nondet_uchar(); }
    d->fParams.windowSize = nondet_u64(); d->fParams.frameType = nondet_bool() ? ZSTD_skippableFrame : ZSTD_frame; d->fParams.headerSize = nondet_uint();
    /* "no history yet" is represented by a valid (in-arena) pointer instead of NULL: ZSTD_checkContinuity subtracts these
     * pointers, and CBMC cuts every path after arithmetic on NULL; the semantics (empty history) are the same */
    d->previousDstEnd = nondet_bool() ? (const void*)dst : (const void*)(g_arena + 8);
    d->prefixStart = d->previousDstEnd; d->virtualStart = d->previousDstEnd; d->dictEnd = NULL;
    /* stage invariant */
    if (d->stage == ZSTDds_getFrameHeaderSize) VASSUME(d->expected == ZSTD_startingInputLength(d->format));
    if (d->stage == ZSTDds_decodeFrameHeader) VASSUME(d->headerSize >= 2 && d->headerSize <= ZSTD_FRAMEHEADERSIZE_MAX && d->expected >= 1 && d->expected < d->headerSize);
    if (d->stage == ZSTDds_decodeBlockHeader) VASSUME(d->expected == ZSTD_blockHeaderSize);
    if (d->stage == ZSTDds_decodeSkippableHeader) VASSUME(d->expected >= 1 && d->expected <= ZSTD_SKIPPABLEHEADERSIZE - 1 && d->format == ZSTD_f_zstd1);
    if (d->stage == ZSTDds_checkChecksum) VASSUME(d->expected == 4 && d->fParams.checksumFlag == 1
                                               && (d->fParams.frameContentSize == ZSTD_CONTENTSIZE_UNKNOWN || d->decodedSize == d->fParams.frameContentSize));   /* established on entry to this stage: checked below */
    if (d->stage == ZSTDds_decompressBlock || d->stage == ZSTDds_decompressLastBlock) {
        VASSUME(d->expected >= 1 && d->expected <= d->fParams.blockSizeMax);
        if (d->bType == bt_rle) VASSUME(d->expected == 1);
    }
    if (d->stage >= ZSTDds_decodeBlockHeader && d->stage <= ZSTDds_checkChecksum)
        VASSUME(d->validateChecksum == (unsigned)(d->fParams.checksumFlag && !d->forceIgnoreChecksum));
    else VASSUME(d->validateChecksum <= 1);
    {   ZSTD_dStage const stage0 = d->stage;
        size_t const expected0 = d->expected;
        U64 const decoded0 = d->decodedSize, processed0 = d->processedCSize;
        blockType_e const bType0 = d->bType;
        unsigned const ckFlag0 = d->fParams.checksumFlag, validate0 = d->validateChecksum;
        U64 const fcs0 = d->fParams.frameContentSize;
        U32 const hdr24 = srcSize >= 3 ? (U32)src[0] | ((U32)src[1] << 8) | ((U32)src[2] << 16) : 0;
        U32 const stored32 = srcSize >= 4 ? MEM_readLE32(src) : 0;
        size_t const r = ZSTD_decompressContinue(d, dst, cap, src, srcSize);
        int const done = (d->stage == ZSTDds_getFrameHeaderSize && d->expected == 0);

        /* exact-size discipline: only a raw block may be fed partially */
        if (!(srcSize == expected0 || ((stage0 == ZSTDds_decompressBlock || stage0 == ZSTDds_decompressLastBlock) && bType0 == bt_raw && srcSize >= 1 && srcSize < expected0)))
            VCHECKM(ZSTD_isError(r), "a call with the wrong number of input bytes is refused");
        if (ZSTD_isError(r)) { VWITNESS(stage0 == ZSTDds_checkChecksum); return; }

        VCHECKM(r <= cap, "bytes produced never exceed the output capacity");
        VCHECKM(d->processedCSize >= processed0 + srcSize, "consumed-bytes counter advances by the bytes presented");
        VCHECKM(d->decodedSize == decoded0 + (stage0 == ZSTDds_decompressBlock || stage0 == ZSTDds_decompressLastBlock ? r : 0), "decoded-size counter advances by exactly the bytes produced");

        if (stage0 == ZSTDds_decodeBlockHeader) {
            /* block header per the format document: bit0 last, bits1-2 type, bits3-23 size */
            U32 const last = hdr24 & 1, type = (hdr24 >> 1) & 3, size = hdr24 >> 3;
            size_t const want = (type == bt_rle) ? 1 : size;
            VCHECKM(type != bt_reserved, "reserved block type refused");
            if (want != 0) {
                VCHECKM(d->expected == want, "next expected input = the block's announced size (1 for RLE)");
                VCHECKM(d->stage == (last ? ZSTDds_decompressLastBlock : ZSTDds_decompressBlock), "block stage follows the last-block bit");
                VCHECKM(d->bType == (blockType_e)type && (type != bt_rle || d->rleSize == size), "block type and RLE size recorded");
            } else if (!last) {
                VCHECKM(d->stage == ZSTDds_decodeBlockHeader && d->expected == ZSTD_blockHeaderSize, "empty non-last block: next block header expected");
            }
        }
        if ((stage0 == ZSTDds_decompressBlock || stage0 == ZSTDds_decompressLastBlock) && bType0 == bt_raw) {
            VCHECKM(r == srcSize, "raw block: output bytes = input bytes");
            if (srcSize < expected0) VCHECKM(d->stage == stage0 && d->expected == expected0 - srcSize, "partially fed raw block: remaining bytes still expected, same stage");
        }
        if (stage0 == ZSTDds_decompressBlock && d->stage != stage0)
            VCHECKM(d->stage == ZSTDds_decodeBlockHeader && d->expected == ZSTD_blockHeaderSize, "after a non-last block the next block header is expected");

        /* ---- the frame is reported complete only when everything announced was presented and verified ---- */
        if (done) {
            VCHECKM(stage0 == ZSTDds_decompressLastBlock || stage0 == ZSTDds_checkChecksum || stage0 == ZSTDds_decodeBlockHeader || stage0 == ZSTDds_skipFrame,
                    "frame completion is reached only from the last block, the checksum, an empty last block or a skippable frame");
            if (stage0 == ZSTDds_decodeBlockHeader) VCHECKM((hdr24 & 1) && ((hdr24 >> 3) == 0 || ((hdr24 >> 1) & 3) == bt_rle), "completion from a block header only for an empty last block");
            if (stage0 != ZSTDds_skipFrame) {
                if (ckFlag0) VCHECKM(stage0 == ZSTDds_checkChecksum, "a frame with a checksum completes only after its 4 checksum bytes were presented");
                if (fcs0 != ZSTD_CONTENTSIZE_UNKNOWN) VCHECKM(d->decodedSize == fcs0, "a frame with a content size completes only if exactly that many bytes were regenerated");
                if (stage0 == ZSTDds_checkChecksum && validate0) VCHECKM(stored32 == (U32)g_digest, "completion after the checksum stage only if the stored checksum equals the digest");
            }
        } else if (stage0 == ZSTDds_decompressLastBlock && d->stage != stage0) {
            VCHECKM(d->stage == ZSTDds_checkChecksum && d->expected == 4 && ckFlag0, "after the last block the only continuation is the 4-byte checksum");
        }
        if (d->stage == ZSTDds_checkChecksum && stage0 != ZSTDds_checkChecksum)
            VCHECKM(d->expected == 4 && ckFlag0 && (fcs0 == ZSTD_CONTENTSIZE_UNKNOWN || d->decodedSize == fcs0), "the checksum stage is entered only with the content size verified (invariant assumed for that stage)");
        VWITNESS(done && stage0 == ZSTDds_decompressLastBlock);
        VWITNESS(done && stage0 == ZSTDds_checkChecksum && validate0);
        VWITNESS(done && stage0 == ZSTDds_decodeBlockHeader);
        VWITNESS(stage0 == ZSTDds_decodeFrameHeader && d->stage == ZSTDds_decodeBlockHeader);
        VWITNESS(stage0 == ZSTDds_getFrameHeaderSize && d->stage == ZSTDds_decodeSkippableHeader);
        VWITNESS(stage0 == ZSTDds_decompressBlock && bType0 == bt_raw && srcSize < expected0);
        VWITNESS(stage0 == ZSTDds_decompressBlock && bType0 == bt_compressed && r > 0);
    }
}
