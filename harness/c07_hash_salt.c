/* @harness c07.hash_salt
 * @props C07
 * @tier quick
 * @functions ZSTD_hashPtrSalted ZSTD_hash4PtrS ZSTD_hash5PtrS ZSTD_hash6PtrS ZSTD_hash7PtrS ZSTD_hash8PtrS
 * @bounds any two 8-byte input windows, any two 64-bit salts, hash width 8..32 bits, minimum match length 4..8 (one instance per length)
 * @assume the row-based match finder groups positions by this hash (row = high bits, tag = low 8 bits); the salt changes with the context's history (ZSTD_advanceHashSalt). Obligation: whether two positions collide does NOT depend on the salt, so the partition of positions into (row, tag) classes - and with it every search result - is the same for every history.
 * @outside the row finder's search loop itself
 * @link lib/common/zstd_common.c lib/common/error_private.c
 * @backend cvc5
 * @mem native
 * @cbmc --unwind 10
 * @timeout 300
 * @memgb 4
 * @instance mls4 backend=cvc5 -DMLS=4
 * @instance mls5 backend=cvc5 -DMLS=5
 * @instance mls6 backend=cvc5 -DMLS=6
 * @instance mls7 backend=cvc5 -DMLS=7
 * @instance mls8 backend=cvc5 -DMLS=8
 */
#include "v.h"
#include <string.h>
#include "compress/zstd_compress_internal.h"

void harness(void)
{
    BYTE p1[8], p2[8]; unsigned i;
    U64 const s1 = nondet_u64(), s2 = nondet_u64();
    U32 const hBits = nondet_uint();
    VASSUME(hBits >= 8 && hBits <= 32);
    for (i = 0; i < 8; i++) { p1[i] = nondet_uchar(); p2[i] = nondet_uchar(); }
    {   size_t const a1 = ZSTD_hashPtrSalted(p1, hBits, MLS, s1), b1 = ZSTD_hashPtrSalted(p2, hBits, MLS, s1);
        size_t const a2 = ZSTD_hashPtrSalted(p1, hBits, MLS, s2), b2 = ZSTD_hashPtrSalted(p2, hBits, MLS, s2);
        VCHECKM(a1 < ((size_t)1 << hBits) && a2 < ((size_t)1 << hBits), "hash fits the requested width");
        VCHECKM((a1 == b1) == (a2 == b2), "two positions fall into the same (row, tag) class under one salt iff they do under any other salt");
        VCHECKM(((a1 >> 8) == (b1 >> 8)) == ((a2 >> 8) == (b2 >> 8)), "the same holds for the row alone (hash without its 8 tag bits)");
        VWITNESS(a1 != a2);
    }
}
