/* @harness c13
 * @props C13
 * @tier quick
 * @functions ZSTD_customMalloc ZSTD_customCalloc ZSTD_customFree POOL_create_advanced POOL_free POOL_resize ZSTD_createDDict_advanced ZSTD_initDDict_internal ZSTD_freeDDict ZSTD_createDCtx_advanced ZSTD_freeDCtx ZSTD_DCtx_loadDictionary_advanced ZSTD_createCCtx_advanced ZSTD_freeCCtx ZSTD_CCtx_loadDictionary_advanced
 * @bounds the index of the failing allocation is a symbolic variable over ALL naturals (so every allocation of the scenario, and the no-failure run, are covered), plus an optional second failing index; pool: (2 threads, queue 1) and (3 threads, queue 0), resize to threads+1, pthread_create may fail at any thread; dictionaries: 1..12 raw bytes, by copy / by reference
 * @assume counting ZSTD_customMem (vstubs/alloc_counting.h): live-pointer set of 12; malloc content arbitrary; pthread primitives are inert stubs (threads are not run), mutex/cond init succeed (their failure is not an allocation failure)
 * @outside trainers' allocations (cover.c, fastcover.c, divsufsort); workspace growth inside real compressions; zstd-format dictionaries (entropy tables)
 * @link lib/common/zstd_common.c lib/common/error_private.c
 * @defs -DZSTD_MULTITHREAD
 * @mem loop
 * @cbmc --unwind 14 --unwindset __builtin_memset.0:400,__builtin_memcpy.0:400
 * @timeout 300
 * @memgb 4
 * @instance calloc cbmc="--unwindset __builtin_memset.0:20" -DH_CALLOC
 * @instance pool_2_1 mem=loop cbmc="--unwindset __builtin_memset.0:260,__builtin_memcpy.0:40" -DH_POOL -DNT=2 -DQS=1
 * @instance pool_3_0 mem=loop cbmc="--unwindset __builtin_memset.0:260,__builtin_memcpy.0:40" -DH_POOL -DNT=3 -DQS=0
 * @instance ddict cbmc="--unwindset __builtin_memcpy.0:14" -DH_DDICT
 * @instance dctx tier=thorough timeout=1500 memgb=10 mem=check -DH_DCTX -DZSTD_DECODER_INTERNAL_BUFFER=64
 */
#include "v.h"
#include "alloc_counting.h"
#include <pthread.h>

#if defined(H_CALLOC) || defined(H_POOL)
#include "common/pool.c"
static int created, joined, createFailAt;
int pthread_create(pthread_t* t, const pthread_attr_t* a, void* (*f)(void*), void* arg) { (void)a; (void)f; (void)arg; if (created + 1 == createFailAt) return 11; created++; *t = (pthread_t)(100 + created); return 0; }
int pthread_join(pthread_t t, void** r) { (void)t; (void)r; joined++; return 0; }
int pthread_mutex_init(pthread_mutex_t* m, const pthread_mutexattr_t* a) { (void)m; (void)a; return 0; }
int pthread_mutex_destroy(pthread_mutex_t* m) { (void)m; return 0; }
int pthread_mutex_lock(pthread_mutex_t* m) { (void)m; return 0; }
int pthread_mutex_unlock(pthread_mutex_t* m) { (void)m; return 0; }
int pthread_cond_init(pthread_cond_t* c, const pthread_condattr_t* a) { (void)c; (void)a; return 0; }
int pthread_cond_destroy(pthread_cond_t* c) { (void)c; return 0; }
int pthread_cond_broadcast(pthread_cond_t* c) { (void)c; return 0; }
int pthread_cond_signal(pthread_cond_t* c) { (void)c; return 0; }
int pthread_cond_wait(pthread_cond_t* c, pthread_mutex_t* m) { (void)c; (void)m; return 0; }
#endif

#ifdef H_CALLOC
void harness(void)
{
    ZSTD_customMem const cm = VC_MEM;
    size_t const n = nondet_size();
    void* p;
    VASSUME(n >= 1 && n <= 16);
    vc_fail_at = nondet_uint();
    p = ZSTD_customCalloc(n, cm);
    if (p == NULL) { VCHECKM(vc_failed == 1, "NULL only when the allocator failed"); VC_NOLEAK(); }
    else { size_t const k = nondet_size(); if (k < n) VCHECKM(((unsigned char*)p)[k] == 0, "calloc'd memory is zeroed"); ZSTD_customFree(p, cm); VC_NOLEAK(); }
    VWITNESS(p == NULL);
    VWITNESS(p != NULL && n == 16);
}
#endif

#ifdef H_POOL
void harness(void)
{
    ZSTD_customMem const cm = VC_MEM;
    size_t const nt = nondet_size(), qs = nondet_size();
    POOL_ctx* p;
    VASSUME(nt == NT && qs == QS);      /* concrete per instance: allocation sizes are then constants for the byte-loop memory model */
    vc_fail_at = nondet_uint(); createFailAt = nondet_int();
    p = POOL_create_advanced(nt, qs, cm);
    if (p == NULL) { VC_NOLEAK(); VCHECKM(created == joined, "every started worker was joined on the failure path"); }
    else {
        size_t const n2 = NT + 1;          /* growing resize: the only one that allocates */
        VCHECKM(POOL_sizeof(p) >= vc_totalLive, "POOL_sizeof never under-reports what the pool holds");
        (void)POOL_resize(p, n2);          /* may fail on allocation: the pool must stay usable and freeable */
        POOL_free(p);
        VC_NOLEAK();
        VCHECKM(created == joined, "every started worker joined at free");
    }
    VWITNESS(p == NULL && vc_count == 3);
    VWITNESS(p != NULL && vc_failed == 1);
    VWITNESS(p != NULL && vc_failed == 0 && vc_count == 4);
}
#endif

#ifdef H_DDICT
#include "decompress/zstd_ddict.c"
size_t ZSTD_loadDEntropy(ZSTD_entropyDTables_t* entropy, const void* const dict, size_t const dictSize) { (void)entropy; (void)dict; (void)dictSize; return ERROR(dictionary_corrupted); }
void harness(void)
{
    ZSTD_customMem const cm = VC_MEM;
    static unsigned char dict[12];
    size_t const n = nondet_size(); unsigned i;
    ZSTD_DDict* dd;
    VASSUME(n >= 1 && n <= 12);
    for (i = 0; i < 12; i++) dict[i] = nondet_uchar();
    VASSUME(!(n >= 8 && dict[0] == 0x37 && dict[1] == 0xA4 && dict[2] == 0x30 && dict[3] == 0xEC));   /* raw-content dictionaries only */
    vc_fail_at = nondet_uint();
    dd = ZSTD_createDDict_advanced(dict, n, nondet_bool() ? ZSTD_dlm_byRef : ZSTD_dlm_byCopy, ZSTD_dct_auto, cm);
    if (dd == NULL) { VCHECKM(vc_failed >= 1, "creation fails only when an allocation failed"); VC_NOLEAK(); }
    else {
        VCHECKM(ZSTD_sizeof_DDict(dd) >= vc_totalLive, "ZSTD_sizeof_DDict never under-reports what the dictionary holds");
        VCHECKM(ZSTD_DDict_dictSize(dd) == n, "content size recorded");
        ZSTD_freeDDict(dd);
        VC_NOLEAK();
    }
    VWITNESS(dd == NULL && vc_count == 2);
    VWITNESS(dd != NULL && vc_count == 2);
}
#endif

#ifdef H_DCTX
#include "decompress/zstd_decompress.c"
#include "decompress/zstd_ddict.c"
size_t ZSTD_decompressBlock_internal(ZSTD_DCtx* dctx, void* dst, size_t dstCapacity, const void* src, size_t srcSize, const streaming_operation streaming) { (void)dctx; (void)dst; (void)dstCapacity; (void)src; (void)srcSize; (void)streaming; return ERROR(GENERIC); }
void ZSTD_checkContinuity(ZSTD_DCtx* dctx, const void* dst, size_t dstSize) { (void)dctx; (void)dst; (void)dstSize; }
size_t ZSTD_getcBlockSize(const void* src, size_t srcSize, blockProperties_t* bpPtr) { (void)src; (void)srcSize; (void)bpPtr; return ERROR(GENERIC); }
void harness(void)
{
    ZSTD_customMem const cm = VC_MEM;
    static unsigned char dict[8] = { 1, 2, 3, 4, 5, 6, 7, 8 };
    ZSTD_DCtx* d;
    vc_fail_at = nondet_uint(); vc_fail_at2 = nondet_uint();
    d = ZSTD_createDCtx_advanced(cm);
    if (d == NULL) { VCHECKM(vc_failed >= 1, "creation fails only when an allocation failed"); VC_NOLEAK(); }
    else {
        size_t const r = ZSTD_DCtx_loadDictionary_advanced(d, dict, 8, nondet_bool() ? ZSTD_dlm_byRef : ZSTD_dlm_byCopy, ZSTD_dct_rawContent);
        if (ZSTD_isError(r)) VCHECKM(vc_failed >= 1, "dictionary load fails only when an allocation failed");
        else VCHECKM(ZSTD_sizeof_DCtx(d) >= vc_totalLive, "ZSTD_sizeof_DCtx never under-reports what the context holds");
        {   /* the same context completes the same operation once memory is available again */
            size_t const r2 = (vc_fail_at = 0, vc_fail_at2 = 0, ZSTD_DCtx_reset(d, ZSTD_reset_session_only), ZSTD_DCtx_loadDictionary_advanced(d, dict, 8, ZSTD_dlm_byCopy, ZSTD_dct_rawContent));
            VCHECKM(!ZSTD_isError(r2), "after a failed load, the same context loads the dictionary once memory is available");
        }
        VCHECKM(ZSTD_freeDCtx(d) == 0, "context freed");
        VC_NOLEAK();
        VWITNESS(ZSTD_isError(r));
        VWITNESS(!ZSTD_isError(r) && vc_count >= 4);
    }
    VWITNESS(d == NULL);
}
#endif
