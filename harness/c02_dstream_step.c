/* @harness c02.dstream_step
 * @props C02 C10
 * @tier thorough
 * @functions ZSTD_decompressStream ZSTD_decompressContinueStream ZSTD_nextSrcSizeToDecompressWithInputSize ZSTD_nextSrcSizeToDecompress ZSTD_nextInputType ZSTD_isSkipFrame ZSTD_limitCopy ZSTD_checkOutBuffer
 * @bounds ONE call of the streaming decoder from an ARBITRARY mid-frame state satisfying the stream invariant I_d (inductive step => any call history, any segmentation): stream stage read / load / flush (one instance each); frame stage block header / block (raw, RLE, compressed; last or not) / checksum / skippable content; any partially loaded input, any partially flushed output; block size limit 4..8 (production: 1 KiB..128 KiB; the stream layer is generic in it), window 1..2 block sizes, content size unknown or any value <= 40; internal buffers of any size allowed by the sizing rule; per call 0..(block + 4) new input bytes, output room 0..(block + 8), at most 3 (stable output) / 2 (buffered output) invocations of the frame decoder inside the call (further iterations of the same loop start again from states satisfying I_d); stable output buffer (quick instances) or buffered output (thorough instances: 16-20 min each)
 * @assume ZSTD_decompressContinue is a CONTRACT stub (definition line renamed in a scratch copy): it must be fed exactly the size it asked for, from readable memory, with a writable destination of the announced capacity; it then fails or produces at most min(block size limit, content still missing) bytes and moves the frame to ANY next state allowed by I_d (including end of frame); raw blocks may be consumed piecewise as the real decoder allows
 * @assume I_d (established by the header stage, c14.dstream_header, and re-proved here as post-condition): input buffer >= max(block size limit, 4); 0 <= outStart <= outEnd <= output buffer size; outside the flush stage nothing is pending (outStart == outEnd) and in the read / flush stages no input is buffered; output buffer >= min(content size, window + 2 blocks + 64) (ZSTD_decodingBufferSize_internal); if the whole frame fits the output buffer, outEnd equals the number of bytes decoded so far, otherwise outside the flush stage a full block still fits behind outStart; amounts expected by the frame stage never exceed the block size limit (4 for the checksum)
 * @bounds decided: memory safety of every internal copy; the decoder is always fed exactly what it asked for, contiguously from the caller's input or from the internal buffer; the "should never happen" internal-buffer error is unreachable; a block is always given room for min(block size limit, missing content) bytes, so a valid frame never fails for lack of internal room; consumed input = bytes decoded directly + bytes newly buffered; output appears only by flushing the internal buffer in order (buffered mode); a call returns with unflushed output only when the caller's room is exhausted; with input available for the next step and room to flush, a call makes progress; the returned hint is the amount still needed for the next step (+ the next block header); I_d holds again afterwards
 * @outside the header stage (c14.dstream_header), the end-of-frame protocol with the withheld byte (c02.dstream_tail), block decoding itself
 * @prep rename lib/decompress/zstd_decompress.c ZSTD_decompressContinue ZSTD_decompressContinue_REAL zd_step.c
 * @link lib/common/zstd_common.c lib/common/error_private.c lib/decompress/zstd_ddict.c
 * @backend cadical
 * @mem check
 * @defs -DZSTD_DECODER_INTERNAL_BUFFER=64
 * @cbmc --unwind 10
 * @timeout 1800
 * @memgb 14
 * @instance stable_read tier=thorough -DOUT_STABLE=1 -DSS0=zdss_read -DSS_READ=1
 * @instance stable_load tier=thorough -DOUT_STABLE=1 -DSS0=zdss_load -DSS_LOAD=1
 * @instance buf_read tier=thorough timeout=2400 -DOUT_STABLE=0 -DSS0=zdss_read -DSS_READ=1 -DMAXCALLS=2
 * @instance buf_load tier=thorough timeout=2400 -DOUT_STABLE=0 -DSS0=zdss_load -DSS_LOAD=1 -DMAXCALLS=2
 * @instance buf_flush tier=thorough timeout=2400 -DOUT_STABLE=0 -DSS0=zdss_flush -DSS_FLUSH=1 -DMAXCALLS=2
 */
#include "v.h"
#include <string.h>
#include <stdlib.h>
#include <stdio.h>
#include "zd_step.c"
size_t ZSTD_decompressBlock_internal(ZSTD_DCtx* dctx, void* dst, size_t dstCapacity, const void* src, size_t srcSize, const streaming_operation streaming)
{ (void)dctx; (void)dst; (void)dstCapacity; (void)src; (void)srcSize; (void)streaming; return ERROR(GENERIC); }
void ZSTD_checkContinuity(ZSTD_DCtx* dctx, const void* dst, size_t dstSize) { (void)dctx; (void)dst; (void)dstSize; }
size_t ZSTD_getcBlockSize(const void* src, size_t srcSize, blockProperties_t* bpPtr) { (void)src; (void)srcSize; (void)bpPtr; return ERROR(GENERIC); }
XXH_errorcode XXH64_reset(XXH64_state_t* s, XXH64_hash_t seed) { (void)s; (void)seed; return XXH_OK; }
XXH_errorcode XXH64_update(XXH64_state_t* s, const void* in, size_t len) { (void)s; (void)in; (void)len; return XXH_OK; }
XXH64_hash_t XXH64_digest(const XXH64_state_t* s) { (void)s; return 0; }

#define BSMAX 8
#ifndef MAXCALLS
#define MAXCALLS 3
#endif
static ZSTD_DCtx g_dctx;
/* fixed-size arenas, buffers are their tail slices (one byte too many leaves the object; symbolic-size heap objects blow up the encoding) */
static char a_inBuff[V_SLACK + BSMAX + 8], a_outBuff[V_SLACK + 120], a_userIn[V_SLACK + 2 * BSMAX + 8], a_userOut[V_SLACK + 2 * BSMAX + 16];
static const char* g_userIn; static size_t g_userInSize, g_userNext;   /* next user byte the decoder may be fed directly */
static char* g_userOut; static size_t g_userOutSize;
static size_t g_direct, g_buffered, g_produced; static int g_calls, g_frameEnded, g_failed;

static int frame_state_ok(const ZSTD_DCtx* d)      /* I_d, frame-stage part */
{
    size_t const bs = d->fParams.blockSizeMax;
    switch (d->stage) {
    case ZSTDds_decodeBlockHeader: return d->expected == ZSTD_blockHeaderSize;
    case ZSTDds_decompressBlock: case ZSTDds_decompressLastBlock:
        if (d->bType == bt_rle) return d->expected == 1;
        return (d->bType == bt_raw || d->bType == bt_compressed) && d->expected >= 1 && d->expected <= bs;
    case ZSTDds_checkChecksum: return d->expected == 4;
    case ZSTDds_skipFrame: return d->expected >= 1 && d->expected <= 0xFFFFFFFFu;      /* skippable content size is a 32-bit field */
    default: return 0;
    }
}
static int stream_inv(const ZSTD_DCtx* d)
{
    size_t const bs = d->fParams.blockSizeMax; unsigned long long const fcs = d->fParams.frameContentSize, win = d->fParams.windowSize;
    unsigned long long const ring = win + 2 * (unsigned long long)bs + 2 * WILDCOPY_OVERLENGTH;
    if (!(bs >= 4 && bs <= BSMAX && win >= bs && win <= 2 * (unsigned long long)bs)) return 0;
    if (!frame_state_ok(d)) return 0;
    if (!(d->inBuffSize >= (bs > 4 ? bs : 4) && d->inBuffSize <= bs + 8)) return 0;
    if (d->stage != ZSTDds_skipFrame && d->inPos > d->inBuffSize) return 0;      /* skipped bytes are counted, not stored */
    if (fcs != ZSTD_CONTENTSIZE_UNKNOWN && !(d->decodedSize <= fcs && fcs <= 40)) return 0;
    if (d->hostageByte) return 0;
#if !OUT_STABLE
    if (!(d->outStart <= d->outEnd && d->outEnd <= d->outBuffSize && d->outBuffSize <= 120)) return 0;
    if (!(d->outBuffSize >= (fcs < ring ? fcs : ring))) return 0;
    if (d->outBuffSize >= fcs) { if (d->outEnd != d->decodedSize) return 0; }
    else if (d->streamStage != zdss_flush && !(d->outStart + bs <= d->outBuffSize)) return 0;
    if (d->streamStage != zdss_flush && d->outStart != d->outEnd) return 0;
#else
    if (d->streamStage == zdss_flush) return 0;
#endif
    if (d->streamStage == zdss_load) {
        if (!(d->inPos < d->expected)) return 0;                        /* something is still missing */
        if ((d->stage == ZSTDds_decompressBlock || d->stage == ZSTDds_decompressLastBlock) && d->bType == bt_raw) return 0;   /* raw blocks are always decoded in place, piecewise */
    } else if (d->inPos != 0) return 0;
    return d->streamStage == zdss_read || d->streamStage == zdss_load || d->streamStage == zdss_flush;
}

size_t ZSTD_decompressContinue(ZSTD_DCtx* d, void* dst, size_t dstCapacity, const void* src, size_t srcSize)
{
    size_t const need = ZSTD_nextSrcSizeToDecompressWithInputSize(d, srcSize);
    size_t const bs = d->fParams.blockSizeMax; unsigned long long const fcs = d->fParams.frameContentSize;
    size_t p = 0;
    g_calls++;
    VASSUME(g_calls <= MAXCALLS);      /* stated bound: at most MAXCALLS frame-decoder invocations inside one stream call */
    VCHECKM(srcSize == need && srcSize >= 1, "the decoder is fed exactly the amount it asked for");
    if (d->stage != ZSTDds_skipFrame) VCHECKM(V_R_OK(src, srcSize), "the decoder's input is readable for the announced size");
    VCHECKM(dstCapacity == 0 || V_W_OK(dst, dstCapacity), "the decoder's destination is writable for the announced capacity");
    if ((const char*)src == d->inBuff) g_buffered += srcSize;
    else {
        VCHECKM((const char*)src >= g_userIn + g_userNext && (const char*)src + srcSize <= g_userIn + g_userInSize, "input decoded in place lies in the unread part of the caller's buffer, in order");
        g_userNext = (size_t)((const char*)src - g_userIn) + srcSize; g_direct += srcSize;
    }
    if (nondet_bool()) { g_failed = 1; return ERROR(corruption_detected); }
    if (d->stage == ZSTDds_decompressBlock || d->stage == ZSTDds_decompressLastBlock) {
        unsigned long long const missing = (fcs == ZSTD_CONTENTSIZE_UNKNOWN) ? bs : fcs - d->decodedSize;
        size_t const most = (size_t)(missing < bs ? missing : bs);
#if !OUT_STABLE
        VCHECKM(dstCapacity >= most, "a block is given room for min(block size limit, missing content): a valid frame never fails for lack of internal room");
        VCHECKM((char*)dst >= d->outBuff && (char*)dst + dstCapacity <= d->outBuff + d->outBuffSize, "buffered mode decodes into the internal output buffer");
#else
        VCHECKM((char*)dst >= g_userOut && (char*)dst + dstCapacity <= g_userOut + g_userOutSize, "stable mode decodes into the caller's buffer");
#endif
        if (d->bType == bt_raw) { p = srcSize; if (p > dstCapacity || p > most) { g_failed = 1; return ERROR(dstSize_tooSmall); } }
        else { p = nondet_size(); VASSUME(p <= most); if (p > dstCapacity) { g_failed = 1; return ERROR(dstSize_tooSmall); } }
        d->decodedSize += p; g_produced += p;
        if (d->bType == bt_raw && srcSize < d->expected) { d->expected -= srcSize; return p; }      /* raw block consumed piecewise */
    } else if (d->stage == ZSTDds_skipFrame) VCHECKM(dstCapacity == 0, "skippable content is never given output room");
    /* next frame state: anything I_d allows, or end of frame */
    {   unsigned const st = nondet_uint(), bt = nondet_uint(); size_t const ex = nondet_size();
        if (nondet_bool()) { d->expected = 0; d->stage = ZSTDds_getFrameHeaderSize; g_frameEnded = 1; return p; }
        VASSUME(st <= ZSTDds_skipFrame && bt <= bt_compressed);
        d->stage = (ZSTD_dStage)st; d->bType = (blockType_e)bt; d->expected = ex;
        VASSUME(frame_state_ok(d));
    }
    return p;
}

void harness(void)
{
    ZSTD_DCtx* const d = &g_dctx; ZSTD_inBuffer in; ZSTD_outBuffer out; size_t r;
    d->format = ZSTD_f_zstd1; d->outBufferMode = OUT_STABLE ? ZSTD_bm_stable : ZSTD_bm_buffered;
    d->fParams.blockSizeMax = nondet_uint(); d->fParams.windowSize = nondet_u64(); d->fParams.frameContentSize = nondet_u64();
    d->decodedSize = nondet_u64(); d->expected = nondet_size(); d->inPos = nondet_size(); d->inBuffSize = nondet_size();
    d->outStart = nondet_size(); d->outEnd = nondet_size(); d->outBuffSize = nondet_size(); d->hostageByte = 0; d->noForwardProgress = 0;
    d->maxWindowSize = ZSTD_MAXWINDOWSIZE_DEFAULT;
    {   unsigned const st = nondet_uint(), bt = nondet_uint(), ss = nondet_uint();
        VASSUME(st <= ZSTDds_skipFrame && bt <= bt_compressed && ss <= zdss_flush);
        d->stage = (ZSTD_dStage)st; d->bType = (blockType_e)bt; d->streamStage = (ZSTD_dStreamStage)ss;
        d->streamStage = SS0; (void)ss;      /* entry stage concrete per instance: symbolic execution then never enters the header stages */
    }
#if OUT_STABLE
    d->outBuffSize = 0; d->outStart = d->outEnd = 0;
#endif
    VASSUME(stream_inv(d));
    d->inBuff = a_inBuff + sizeof a_inBuff - d->inBuffSize;
#if !OUT_STABLE
    d->outBuff = a_outBuff + sizeof a_outBuff - d->outBuffSize;
#endif
    in.size = nondet_size(); in.pos = nondet_size(); out.size = nondet_size(); out.pos = nondet_size();
    VASSUME(in.pos <= in.size && in.size <= 2 * BSMAX + 8 && in.size - in.pos <= d->fParams.blockSizeMax + 4 && out.pos <= out.size && out.size <= 2 * BSMAX + 16 && out.size - out.pos <= d->fParams.blockSizeMax + 8);
    in.src = a_userIn + sizeof a_userIn - in.size; out.dst = a_userOut + sizeof a_userOut - out.size;
    g_userIn = (const char*)in.src; g_userInSize = in.size; g_userNext = in.pos; g_userOut = (char*)out.dst; g_userOutSize = out.size;
#if OUT_STABLE
    d->expectedOutBuffer = out;            /* stable output: same buffer as announced by the previous call */
#endif
    {   size_t const inPos0 = in.pos, outPos0 = out.pos, buffered0 = d->inPos, pending0 = d->outEnd - d->outStart;
        size_t const avail = in.size - in.pos, room = out.size - out.pos;
        size_t const need0 = d->expected; int const skip0 = (d->stage == ZSTDds_skipFrame), stage0 = (int)d->streamStage;
        r = ZSTD_decompressStream(d, &out, &in);
#ifdef VERIF_NATIVE
        printf("native: r=%zu (%s) calls=%d failed=%d ended=%d\n", r, ZSTD_getErrorName(r), g_calls, g_failed, g_frameEnded);
#endif
        VCHECKM(in.pos <= in.size && out.pos <= out.size, "cursors stay inside the caller's buffers");
        if (ZSTD_isError(r)) VCHECKM(g_failed, "the stream layer itself raises no error from a state satisfying I_d: every error comes from the frame decoder");
        else {
            VCHECKM(in.pos >= inPos0 && out.pos >= outPos0, "cursors never move back in mid-frame");
            if (!g_frameEnded) {
                VCHECKM(stream_inv(d), "the stream invariant holds again (so the next call starts from a state covered by this harness)");
                VCHECKM((in.pos - inPos0) + buffered0 == g_direct + g_buffered + d->inPos && in.pos >= g_userNext, "consumed input + previously buffered = bytes decoded in place + bytes decoded from the internal buffer + bytes still buffered (nothing skipped, nothing read twice)");
#if !OUT_STABLE
                VCHECKM(d->outEnd - d->outStart == 0 || out.pos == out.size, "a call returns with unflushed output only when the caller's room is exhausted");
                VCHECKM((out.pos - outPos0) + (d->outEnd - d->outStart) == pending0 + g_produced, "output appears only by flushing what the decoder produced; nothing is dropped or duplicated");
#else
                VCHECKM(out.pos - outPos0 == g_produced, "stable output: exactly what the decoder produced");
#endif
                /* progress */
                if (stage0 == zdss_flush && pending0 > 0 && room > 0) VCHECKM(out.pos > outPos0, "pending output is delivered as soon as there is room");
                if (stage0 != zdss_flush && avail > 0) VCHECKM(in.pos > inPos0, "outside the flush stage, offered input is consumed (decoded or buffered)");
                (void)need0; (void)skip0;
                /* hint */
                VCHECKM(r == d->expected + (d->stage == ZSTDds_decompressBlock ? ZSTD_blockHeaderSize : 0) - d->inPos, "the returned hint is what the next step still needs (plus the following block header)");
            }
            VWITNESS(g_calls == MAXCALLS);
#ifdef SS_LOAD
            VWITNESS(g_calls == 1 && g_buffered > 0 && buffered0 > 0);
#endif
            VWITNESS(!g_frameEnded && d->streamStage == zdss_load && d->inPos > buffered0);
#if !OUT_STABLE
            VWITNESS(!g_frameEnded && d->streamStage == zdss_flush);
#ifdef SS_FLUSH
            VWITNESS(stage0 == zdss_flush && g_calls == 1 && d->outStart == 0 && pending0 > 0);      /* flush completed, buffer wrapped, next block decoded */
#endif
#endif
            VWITNESS(g_frameEnded);
        }
        VWITNESS(ZSTD_isError(r));
    }
}
