/* @harness c14.dstream_header
 * @props C14 C03 C13
 * @tier quick
 * @functions ZSTD_decompressStream ZSTD_getFrameHeader_advanced ZSTD_decompressBegin_usingDDict ZSTD_decodeFrameHeader ZSTD_decodingBufferSize_internal ZSTD_estimateDStreamSize ZSTD_DCtx_updateOversizedDuration ZSTD_DCtx_isOversizedTooLong ZSTD_initStaticDCtx
 * @bounds header stage of the streaming decoder, one call from a fresh or reset context: frame header = ARBITRARY 18 bytes (every window descriptor, content-size field, flags, magic incl. skippable); maximum window size: any value in the documented range; maxBlockSize parameter: 0 or any value in range; existing internal buffers: none, or any sizes (context reuse); heap context with a counting allocator whose failing index is symbolic, or static context (instances per header shape: window descriptor only / window + 2-byte content size + checksum / single-segment with 2-byte content size) inside a caller block of ANY size >= sizeof(ZSTD_DCtx) (context + exactly-sized tail object)
 * @assume starting point = the state right after the last header byte has been loaded (streamStage loadHeader, lhSize = header size), no further input offered, so the single-pass shortcut cannot apply; copies are range-checked, the header content is the arbitrary pre-filled header buffer (check-only model); ZSTD_DECODER_INTERNAL_BUFFER=64 build knob
 * @outside later stages (c09.continue_step, c02.dstream_tail); dictionaries
 * @assume LAYOUT MODEL of ZSTD_DCtx for this frame-layer harness: a scratch copy of zstd_decompress_internal.h (regenerated from /repo at every run) in which the entropy tables and the Huffman workspace - touched only by the block decoder, which is a stub here - are shrunk (sequence tables 110 entries - the smallest the source's own static assertion allows -, Huffman table and workspace 2 entries); every other member, and all code of zstd_decompress.c, is the real one (the 30 KB struct otherwise costs 100 M clauses per symbolic-offset access)
 * @prep sed lib/decompress/zstd_decompress_internal.h zdi_small.h "\.\./common/ "
 * @prep sed zdi_small.h zdi_small.h \(1\s*\+\s*\(1\s*<<\s*\(log\)\)\) (110)
 * @prep sed zdi_small.h zdi_small.h hufTable\[HUF_DTABLE_SIZE\(ZSTD_HUFFDTABLE_CAPACITY_LOG\)\] hufTable[2]
 * @prep sed zdi_small.h zdi_small.h workspace\[HUF_DECOMPRESS_WORKSPACE_SIZE_U32\] workspace[2]
 * @link lib/common/zstd_common.c lib/common/error_private.c
 * @mem check
 * @defs -DZSTD_DECODER_INTERNAL_BUFFER=64
 * @cbmc --unwind 3 --unwindset harness.0:20,harness.1:20,harness.2:20
 * @timeout 300
 * @memgb 6
 * @instance heap -DH_HEAP
 * @instance static_win -DH_STATIC -DH_FHD=0x00
 * @instance static_fcs2 -DH_STATIC -DH_FHD=0x44
 * @instance static_single -DH_STATIC -DH_FHD=0x60
 */
#include "v.h"
#include "alloc_counting.h"
#include "zdi_small.h"      /* defines the include guard of the real header */
#include "decompress/zstd_decompress.c"
#include "decompress/zstd_ddict.c"
size_t ZSTD_decompressBlock_internal(ZSTD_DCtx* dctx, void* dst, size_t dstCapacity, const void* src, size_t srcSize, const streaming_operation streaming)
{ (void)dctx; (void)dst; (void)dstCapacity; (void)src; (void)srcSize; (void)streaming; VCHECKM(0, "block decoder unreachable in the header stage"); return ERROR(GENERIC); }
void ZSTD_checkContinuity(ZSTD_DCtx* dctx, const void* dst, size_t dstSize) { (void)dctx; (void)dst; (void)dstSize; }
size_t ZSTD_getcBlockSize(const void* src, size_t srcSize, blockProperties_t* bpPtr) { (void)src; (void)srcSize; (void)bpPtr; return ERROR(srcSize_wrong); }
XXH_errorcode XXH64_reset(XXH64_state_t* s, XXH64_hash_t seed) { (void)s; (void)seed; return XXH_OK; }
XXH_errorcode XXH64_update(XXH64_state_t* s, const void* in, size_t len) { (void)s; (void)in; (void)len; return XXH_OK; }
XXH64_hash_t XXH64_digest(const XXH64_state_t* s) { (void)s; return 0; }

static char* g_tail;
void harness(void)
{
    ZSTD_DCtx* d; size_t staticSize = 0; int i;
    char* const user_in = (char*)malloc(ZSTD_FRAMEHEADERSIZE_MAX);
    char out1[1];
    ZSTD_customMem const cm = VC_MEM;
    VASSUME(user_in);
    for (i = 0; i < ZSTD_FRAMEHEADERSIZE_MAX; i++) user_in[i] = (char)nondet_uchar();
#ifdef H_STATIC
    {   /* caller's block = the context followed by (staticSize - sizeof(ZSTD_DCtx)) bytes. Modelled as two objects so that
         * the context keeps its own type: the context itself, and an EXACTLY-sized object for the bytes behind it
         * (what ZSTD_initStaticDCtx sets up with inBuff = (char*)(dctx+1)); any access past the block leaves the object */
        static ZSTD_DCtx staticCtx;
        staticSize = nondet_size();
        VASSUME(staticSize >= sizeof(ZSTD_DCtx) && staticSize <= sizeof(ZSTD_DCtx) + ((size_t)1 << 28) && (staticSize & 7) == 0);
        d = &staticCtx; ZSTD_initDCtx_internal(d);
        d->staticSize = staticSize;
        d->inBuff = (char*)malloc(staticSize - sizeof(ZSTD_DCtx) + 1); VASSUME(d->inBuff);
        g_tail = d->inBuff;
    }
#else
    {   static ZSTD_DCtx heapCtx;
        d = &heapCtx; ZSTD_initDCtx_internal(d); d->customMem = cm;
        if (nondet_bool()) {                 /* reused context that already owns buffers of some size */
            size_t const a = nondet_size(), b = nondet_size(); VASSUME(a <= 4096 && b <= 4096 && a + b >= 1);
            d->inBuff = (char*)vc_alloc(NULL, a + b); d->inBuffSize = a; d->outBuff = d->inBuff + a; d->outBuffSize = b;
            d->oversizedDuration = nondet_size();
        }
        vc_count = 0; vc_fail_at = nondet_uint();
    }
#endif
    for (i = 0; i < ZSTD_FRAMEHEADERSIZE_MAX; i++) d->headerBuffer[i] = nondet_uchar();
    d->maxWindowSize = nondet_size(); VASSUME(d->maxWindowSize >= ((size_t)1 << ZSTD_WINDOWLOG_ABSOLUTEMIN) && d->maxWindowSize <= ((size_t)1 << ZSTD_WINDOWLOG_MAX));
    d->maxBlockSizeParam = nondet_int(); VASSUME(d->maxBlockSizeParam == 0 || (d->maxBlockSizeParam >= ZSTD_BLOCKSIZE_MAX_MIN && d->maxBlockSizeParam <= ZSTD_BLOCKSIZE_MAX));
    d->format = nondet_bool() ? ZSTD_f_zstd1_magicless : ZSTD_f_zstd1;
#ifdef H_FHD
    /* concrete header SHAPE (descriptor byte) per instance: field positions are then constants; field VALUES stay arbitrary */
    d->format = ZSTD_f_zstd1; d->headerBuffer[0] = 0x28; d->headerBuffer[1] = 0xB5; d->headerBuffer[2] = 0x2F; d->headerBuffer[3] = 0xFD; d->headerBuffer[4] = H_FHD;
#endif
    {   ZSTD_frameHeader zfh;
        size_t const hs = ZSTD_getFrameHeader_advanced(&zfh, d->headerBuffer, ZSTD_FRAMEHEADERSIZE_MAX, d->format);   /* what the (arbitrary) header says */
        ZSTD_inBuffer in; ZSTD_outBuffer out; size_t r;
        size_t const live0 = vc_totalLive; unsigned const count0 = vc_count;
        VASSUME(hs == 0 && zfh.frameType == ZSTD_frame);
        /* the state right after the last header byte was loaded (reached inside a call; taken as the starting point) */
        d->streamStage = zdss_loadHeader; d->lhSize = zfh.headerSize; d->inPos = 0; d->outStart = d->outEnd = 0; d->hostageByte = 0;
        in.src = user_in; in.pos = 0; in.size = 0;
        out.dst = out1; out.pos = 0; out.size = 0;
#ifdef H_CUT0
        VWITNESS(zfh.headerSize == 6); return;
#endif
        r = ZSTD_decompressStream(d, &out, &in);
#ifdef H_CUT
        VWITNESS(!ZSTD_isError(r)); return;
#endif
        {   unsigned long long const win = zfh.windowSize < 1024 ? 1024 : zfh.windowSize;
            if (win > d->maxWindowSize) {
                VCHECKM(ZSTD_isError(r), "a frame whose window exceeds the configured maximum is refused");
                VCHECKM(vc_count == count0 && vc_totalLive == live0, "... before any buffer is allocated for it");
            }
            if (!ZSTD_isError(r)) {
                size_t const budget = ZSTD_estimateDStreamSize((size_t)win) - sizeof(ZSTD_DCtx);
                VCHECKM(d->inBuffSize >= d->fParams.blockSizeMax && d->inBuffSize >= 4, "input buffer holds any block of this frame");
#ifdef H_STATIC
                VCHECKM(d->inBuff == g_tail && d->inBuffSize + d->outBuffSize <= staticSize - sizeof(ZSTD_DCtx), "static context: internal buffers lie inside the caller's block");
                VCHECKM(d->outBuff == d->inBuff + d->inBuffSize, "buffers are laid out back to back");
#else
                if (vc_count > count0) {      /* (re)allocated for this frame */
                    VCHECKM(d->inBuffSize + d->outBuffSize <= budget, "heap context: buffers allocated for a frame never exceed ZSTD_estimateDStreamSize(window) - sizeof(ZSTD_DCtx)");
                    VCHECKM(vc_totalLive == d->inBuffSize + d->outBuffSize && vc_nlive == 1, "old buffers released, exactly the new ones held");
                }
                VCHECKM(ZSTD_sizeof_DCtx(d) >= sizeof(ZSTD_DCtx) + vc_totalLive, "ZSTD_sizeof_DCtx never under-reports");
#endif
#ifndef H_FHD
                VWITNESS(win == (1u << 20));
                VWITNESS(d->fParams.frameContentSize == 100);
#else
                VWITNESS(d->inBuffSize + d->outBuffSize + 8 > staticSize - sizeof(ZSTD_DCtx));
#endif
            } else {
#ifdef H_STATIC
                if (ZSTD_getErrorCode(r) == ZSTD_error_memory_allocation) {
                    size_t const inS = d->fParams.blockSizeMax > 4 ? d->fParams.blockSizeMax : 4;
                    VCHECKM(inS + ZSTD_decodingBufferSize_internal(d->fParams.windowSize, d->fParams.frameContentSize, d->fParams.blockSizeMax) > staticSize - sizeof(ZSTD_DCtx), "static context refuses a frame only if its buffers really do not fit behind the context");
                }
                VWITNESS(ZSTD_getErrorCode(r) == ZSTD_error_memory_allocation);
#else
                if (ZSTD_getErrorCode(r) == ZSTD_error_memory_allocation) {
                    VCHECKM(vc_failed == 1, "allocation error only when the allocator failed");
                    VCHECKM(d->inBuff == NULL && d->inBuffSize == 0 && d->outBuffSize == 0 && vc_nlive == 0, "after a failed buffer allocation the context holds no buffer and no stale sizes");
                }
                VWITNESS(ZSTD_getErrorCode(r) == ZSTD_error_memory_allocation);
#endif
                VWITNESS(ZSTD_getErrorCode(r) == ZSTD_error_frameParameter_windowTooLarge);
            }
        }
    }
}
