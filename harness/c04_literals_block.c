/* @harness c04.literals_block
 * @props C04 C03 C06
 * @tier quick
 * @functions ZSTD_decodeLiteralsBlock ZSTD_allocateLiteralsBuffer ZSTD_blockSizeMax
 * @bounds literals section: first 5 bytes (the whole header) and the RLE byte arbitrary, srcSize every value 0..128 KiB (exactly-sized object); destination capacity every value 1..(256 KiB + 256) (exactly-sized object); block size limit 1..128 KiB; streaming / one-shot; frame / block mode; previous-table flag any
 * @assume memory operations are GHOST operations: each ZSTD_memcpy/ZSTD_memmove/ZSTD_memset (zstd's porting-layer macros of common/zstd_deps.h, supplied by the harness for CBMC and native replay alike) is range-checked (and memcpy overlap-checked) and logged instead of executed; afterwards the harness asks, for an ARBITRARY literal index j < litSize, which source byte / fill value the byte at the place the sequence decoders will read literal j originates from, by replaying the log backwards. This decides content exactly for all sizes up to 128 KiB without copying a byte.
 * @assume the four Huffman decoders are stubs: range-checked, logged as "decoded literal k lands at litBuffer+k", may fail; ddictIsCold = 0 (prefetch only)
 * @outside Huffman decoding itself (c03.huf*); the sequence decoders that consume the split layout (c04.exec_variants)
 * @link lib/common/zstd_common.c lib/common/error_private.c
 * @mem none
 * @cbmc --unwind 8
 * @timeout 300
 * @memgb 6
 */
#include "v.h"
#include <string.h>
#include <stdlib.h>

/* ---------------- ghost memory operations ---------------- */
enum { OP_COPY = 1, OP_SET = 2, OP_HUF = 3 };
typedef struct { int kind; const unsigned char* d; const unsigned char* s; size_t n; unsigned char val; } vop_t;
#define NOPS 6
static vop_t g_ops[NOPS]; static int g_nops;
static void vlog(int kind, void* d, const void* s, size_t n, int val) {
    VCHECKM(g_nops < NOPS, "ghost log large enough");
    if (g_nops < NOPS) { g_ops[g_nops].kind = kind; g_ops[g_nops].d = (const unsigned char*)d; g_ops[g_nops].s = (const unsigned char*)s; g_ops[g_nops].n = n; g_ops[g_nops].val = (unsigned char)val; g_nops++; }
}
static void* v_gmemcpy(void* d, const void* s, size_t n) {
    if (n) { VCHECKM(V_R_OK(s, n), "memcpy source range readable"); VCHECKM(V_W_OK(d, n), "memcpy destination range writable");
             VCHECKM(!V_SAME_OBJ(d, s) || (const char*)d + n <= (const char*)s || (const char*)s + n <= (const char*)d, "memcpy ranges do not overlap");
             vlog(OP_COPY, d, s, n, 0); }
    return d; }
static void* v_gmemmove(void* d, const void* s, size_t n) {
    if (n) { VCHECKM(V_R_OK(s, n), "memmove source range readable"); VCHECKM(V_W_OK(d, n), "memmove destination range writable"); vlog(OP_COPY, d, s, n, 0); }
    return d; }
static void* v_gmemset(void* d, int c, size_t n) {
    if (n) { VCHECKM(V_W_OK(d, n), "memset destination range writable"); vlog(OP_SET, d, NULL, n, c); }
    return d; }
void v_havoc_bytes(void* p, size_t n) { (void)p; (void)n; }
/* zstd's own porting layer (common/zstd_deps.h): the three memory primitives are macros that a
 * platform may supply; here they are the ghost operations, identically for CBMC and the native replay */
#define ZSTD_DEPS_COMMON
#include <limits.h>
#define ZSTD_memcpy(d,s,l)  v_gmemcpy((d),(s),(l))
#define ZSTD_memmove(d,s,l) v_gmemmove((d),(s),(l))
#define ZSTD_memset(p,v,l)  v_gmemset((p),(v),(l))

#include "decompress/zstd_decompress_block.c"

static size_t huf_stub(void* dst, size_t dstSize, const void* cSrc, size_t cSrcSize) {
    VCHECKM(dstSize == 0 || V_W_OK(dst, dstSize), "Huffman decoder output range writable");
    VCHECKM(cSrcSize == 0 || V_R_OK(cSrc, cSrcSize), "Huffman decoder input range readable");
    if (nondet_bool()) return ERROR(corruption_detected);
    if (dstSize) vlog(OP_HUF, dst, NULL, dstSize, 0);
    return dstSize; }
size_t HUF_decompress1X_usingDTable(void* dst, size_t maxDstSize, const void* cSrc, size_t cSrcSize, const HUF_DTable* DTable, int flags) { (void)DTable; (void)flags; return huf_stub(dst, maxDstSize, cSrc, cSrcSize); }
size_t HUF_decompress4X_usingDTable(void* dst, size_t maxDstSize, const void* cSrc, size_t cSrcSize, const HUF_DTable* DTable, int flags) { (void)DTable; (void)flags; return huf_stub(dst, maxDstSize, cSrc, cSrcSize); }
size_t HUF_decompress1X1_DCtx_wksp(HUF_DTable* dctx, void* dst, size_t dstSize, const void* cSrc, size_t cSrcSize, void* workSpace, size_t wkspSize, int flags) { (void)dctx; (void)workSpace; (void)wkspSize; (void)flags; return huf_stub(dst, dstSize, cSrc, cSrcSize); }
size_t HUF_decompress4X_hufOnly_wksp(HUF_DTable* dctx, void* dst, size_t dstSize, const void* cSrc, size_t cSrcSize, void* workSpace, size_t wkspSize, int flags) { (void)dctx; (void)workSpace; (void)wkspSize; (void)flags; return huf_stub(dst, dstSize, cSrc, cSrcSize); }

static ZSTD_DCtx g_dctx;

/* where does the byte at physical address a come from?  replay the log backwards */
typedef struct { int kind; const unsigned char* at; unsigned char val; } origin_t;
static origin_t origin_of(const unsigned char* a) {
    origin_t o; int i;
    o.kind = 0; o.at = a; o.val = 0;
    for (i = NOPS - 1; i >= 0; i--) if (i < g_nops) {
        vop_t const op = g_ops[i];
        if (V_SAME_OBJ(o.at, op.d) && o.at >= op.d && o.at < op.d + op.n) {
            if (op.kind == OP_SET) { o.kind = OP_SET; o.val = op.val; return o; }
            if (op.kind == OP_HUF) { o.kind = OP_HUF; return o; }          /* o.at = litBuffer0 + k */
            o.at = op.s + (o.at - op.d);                                   /* copy: continue with its source */
        }
    }
    return o;
}

void harness(void)
{
    ZSTD_DCtx* const d = &g_dctx;
    size_t const n = nondet_size(), cap = nondet_size();
    int streaming = nondet_bool();
    unsigned char* src; unsigned char* dst; size_t r; int i;
    VASSUME(n <= (128 << 10) && cap >= 1 && cap <= (256 << 10) + 256);
    src = (unsigned char*)malloc(n ? n : 1); dst = (unsigned char*)malloc(cap); VASSUME(src && dst);
    for (i = 0; i < 6; i++) if ((size_t)i < n) src[i] = nondet_uchar();
    d->isFrameDecompression = nondet_bool();
    d->fParams.blockSizeMax = nondet_uint(); VASSUME(d->fParams.blockSizeMax >= 1 && d->fParams.blockSizeMax <= ZSTD_BLOCKSIZE_MAX);
    d->litEntropy = nondet_bool(); d->ddictIsCold = 0; d->HUFptr = d->entropy.hufTable; d->disableHufAsm = nondet_bool();
    if (!d->isFrameDecompression) streaming = 0;
    r = ZSTD_decodeLiteralsBlock(d, src, n, dst, cap, streaming ? is_streaming : not_streaming);
    if (!ZSTD_isError(r)) {
        size_t const bmax = ZSTD_blockSizeMax(d);
        size_t const j = nondet_size();                       /* ANY literal index */
        unsigned const type = src[0] & 3;
        size_t lh;
        VCHECKM(r <= n && r >= 1, "bytes consumed lie inside the literals section given");
        VCHECKM(d->litSize <= bmax, "literal count never exceeds the block size limit");
        VCHECKM(d->litSize <= cap || d->litBufferLocation == ZSTD_not_in_dst, "literals placed in dst never exceed its capacity");
        if (d->litBufferLocation == ZSTD_split) {
            VCHECKM(d->litSize > ZSTD_LITBUFFEREXTRASIZE, "split layout only for literals larger than the scratch buffer");
            VCHECKM(d->litBufferEnd >= (const BYTE*)dst && (size_t)(d->litBufferEnd - (const BYTE*)dst) <= bmax && (size_t)(d->litBufferEnd - (const BYTE*)dst) <= cap, "split literals end inside the current block's output area (never over the window or past dst)");
            VCHECKM(d->litBufferEnd == d->litPtr + (d->litSize - ZSTD_LITBUFFEREXTRASIZE), "first part of split literals ends where the scratch part begins");
            VCHECKM(d->litPtr >= dst, "split literals start inside dst");
        }
        /* header length per the format document */
        if (type == set_basic || type == set_rle) { unsigned const sf = (src[0] >> 2) & 3; lh = (sf == 1) ? 2 : (sf == 3) ? 3 : 1; }
        else { unsigned const sf = (src[0] >> 2) & 3; lh = (sf == 2) ? 4 : (sf == 3) ? 5 : 3; }
        if (j < d->litSize) {
            /* physical place where the sequence decoders read literal j */
            const unsigned char* where;
            if (d->litBufferLocation == ZSTD_split && j >= d->litSize - ZSTD_LITBUFFEREXTRASIZE) where = d->litExtraBuffer + (j - (d->litSize - ZSTD_LITBUFFEREXTRASIZE));
            else where = d->litPtr + j;
            VCHECKM(V_R_OK(where, 1), "every literal is readable at the place the sequence decoders will look for it");
            {   origin_t const o = origin_of(where);
                if (type == set_rle) {
                    VCHECKM(o.kind == OP_SET && o.val == src[lh], "RLE literals: every literal equals the RLE byte");
                } else if (type == set_basic) {
                    VCHECKM(o.kind == 0 && o.at == src + lh + j, "raw literals: literal j is byte j of the raw payload");
                } else {
                    VCHECKM(o.kind == OP_HUF, "Huffman literals: literal j comes from the decoder's output");
                    /* after the split shuffle literal j must still be the j-th decoded symbol */
                    {   const unsigned char* hufBase = NULL; int k;
                        for (k = 0; k < NOPS; k++) if (k < g_nops && g_ops[k].kind == OP_HUF) hufBase = g_ops[k].d;
                        VCHECKM(hufBase != NULL && o.at == hufBase + j, "Huffman literals: literal j is the j-th decoded symbol, also after the split-buffer shuffle");
                    }
                }
            }
        }
        VWITNESS(d->litBufferLocation == ZSTD_split && type == set_rle);
        VWITNESS(d->litBufferLocation == ZSTD_split && type == set_basic);
        VWITNESS(d->litBufferLocation == ZSTD_split && type == set_compressed);
        VWITNESS(d->litBufferLocation == ZSTD_in_dst && type == set_rle && d->litSize == 70000);
        VWITNESS(d->litBufferLocation == ZSTD_not_in_dst && type == set_basic && d->litPtr == src + 1);
        VWITNESS(type == set_repeat);
    }
    VWITNESS(ZSTD_isError(r));
}
