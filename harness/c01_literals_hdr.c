/* @harness c01.literals_hdr
 * @props C01 C05 C06
 * @tier quick
 * @functions ZSTD_compressLiterals ZSTD_noCompressLiterals ZSTD_compressRleLiteralsBlock ZSTD_minLiteralsToCompress ZSTD_minGain allBytesIdentical
 * @bounds literal count srcSize: every value 1..128 KiB (the whole range a block can hold); destination capacity: every value 0..132 KiB (exactly-sized heap objects); strategy 1..9; previous Huffman repeat mode, literal-compression switch, uncompressible hint: any
 * @assume HUF_compress1X_repeat / HUF_compress4X_repeat are contract stubs: error, 0, 1 or ANY compressed size <= the room they were given; may keep or drop the repeat mode
 * @assume payload copies (> 12 bytes) are range-checked and havocked (split model): the obligation is the HEADER, parsed in the harness by the rules of doc/zstd_compression_format.md (Literals_Section_Header)
 * @outside Huffman payload itself (c01.huf*), treeless-mode table validity
 * @link lib/common/zstd_common.c lib/common/error_private.c
 * @mem split
 * @cbmc --unwind 9 --unwindset harness.0:10,__builtin_memcpy.0:14,__builtin_memmove.0:14,__builtin_memmove.1:14,__builtin_memset.0:14
 * @timeout 300
 * @memgb 6
 */
#include "v.h"
#include <string.h>
#include <stdlib.h>
#include "compress/zstd_compress_literals.c"

#define SRCMAX (128 << 10)
#define DSTMAX ((128 << 10) + 4096)
static ZSTD_hufCTables_t g_prev, g_next;
static U64 g_wksp[HUF_WORKSPACE_SIZE / 8 + 1];
static size_t g_hufRet; static int g_hufCalled, g_hufStreams; static size_t g_hufRoom;

static size_t huf_stub(void* dst, size_t dstSize, const void* src, size_t srcSize, HUF_repeat* repeat, int streams)
{
    size_t r = nondet_size();
    (void)src; (void)srcSize;
    VCHECKM(V_W_OK(dst, dstSize), "Huffman coder is handed a writable output range");
    g_hufCalled++; g_hufStreams = streams; g_hufRoom = dstSize;
    if (nondet_bool()) *repeat = HUF_repeat_none;
    if (nondet_bool()) { g_hufRet = ERROR(dstSize_tooSmall); return g_hufRet; }
    VASSUME(r <= dstSize);
    g_hufRet = r;
    return r;
}
size_t HUF_compress1X_repeat(void* dst, size_t dstSize, const void* src, size_t srcSize, unsigned maxSymbolValue, unsigned tableLog, void* workSpace, size_t wkspSize, HUF_CElt* hufTable, HUF_repeat* repeat, int flags)
{ (void)maxSymbolValue; (void)tableLog; (void)workSpace; (void)wkspSize; (void)hufTable; (void)flags; return huf_stub(dst, dstSize, src, srcSize, repeat, 1); }
size_t HUF_compress4X_repeat(void* dst, size_t dstSize, const void* src, size_t srcSize, unsigned maxSymbolValue, unsigned tableLog, void* workSpace, size_t wkspSize, HUF_CElt* hufTable, HUF_repeat* repeat, int flags)
{ (void)maxSymbolValue; (void)tableLog; (void)workSpace; (void)wkspSize; (void)hufTable; (void)flags; return huf_stub(dst, dstSize, src, srcSize, repeat, 4); }

void harness(void)
{
    size_t const srcSize = nondet_size(), cap = nondet_size();
    unsigned const strategy = nondet_uint();
    BYTE* dst; const BYTE* src; size_t r; int i;
    VASSUME(srcSize >= 1 && srcSize <= SRCMAX && cap <= DSTMAX);
    VASSUME(strategy >= 1 && strategy <= 9);
    /* exactly-sized heap objects: any access outside [0,size) leaves the object (content of src: arbitrary) */
    {   BYTE* const s0 = (BYTE*)malloc(srcSize); VASSUME(s0 != NULL);
        for (i = 0; i < 8; i++) if ((size_t)i < srcSize) s0[i] = nondet_uchar();
        src = s0;
        dst = (BYTE*)malloc(cap ? cap : 1); VASSUME(dst != NULL);
    }
    { unsigned const rm = nondet_uint(); VASSUME(rm <= HUF_repeat_valid); g_prev.repeatMode = (HUF_repeat)rm; }
    r = ZSTD_compressLiterals(dst, cap, src, srcSize, g_wksp, sizeof g_wksp, &g_prev, &g_next, (ZSTD_strategy)strategy, nondet_bool(), nondet_bool(), 0);
    if (!ZSTD_isError(r)) {
        /* ---- parse the Literals_Section_Header as the format document specifies ---- */
        unsigned const b0 = dst[0];
        unsigned const type = b0 & 3, sf = (b0 >> 2) & 3;
        size_t hdr, regen, comp = 0; int streams = 0;
        VCHECKM(r <= cap && r >= 2, "bytes written within capacity");
        if (type == set_basic || type == set_rle) {
            if (sf == 0 || sf == 2) { hdr = 1; regen = b0 >> 3; }
            else if (sf == 1) { hdr = 2; regen = (b0 >> 4) + ((size_t)dst[1] << 4); }
            else { hdr = 3; regen = (b0 >> 4) + ((size_t)dst[1] << 4) + ((size_t)dst[2] << 12); }
            VCHECKM(regen == srcSize, "raw/RLE literals header announces exactly the number of literals");
            if (type == set_rle) { VCHECKM(r == hdr + 1, "RLE literals section = header + one byte"); VCHECKM(dst[hdr] == src[0], "RLE byte is the literal"); }
            else VCHECKM(r == hdr + srcSize, "raw literals section = header + the literals");
        } else {
            U32 const h32 = dst[0] | ((U32)dst[1] << 8) | ((U32)dst[2] << 16) | ((U32)(r > 3 ? dst[3] : 0) << 24);
            if (sf == 0) { hdr = 3; streams = 1; regen = (h32 >> 4) & 0x3FF; comp = (h32 >> 14) & 0x3FF; }
            else if (sf == 1) { hdr = 3; streams = 4; regen = (h32 >> 4) & 0x3FF; comp = (h32 >> 14) & 0x3FF; }
            else if (sf == 2) { hdr = 4; streams = 4; regen = (h32 >> 4) & 0x3FFF; comp = (h32 >> 18) & 0x3FFF; }
            else { hdr = 5; streams = 4; regen = (h32 >> 4) & 0x3FFFF; comp = ((h32 >> 22) & 0x3FF) + ((size_t)dst[4] << 10); }
            VCHECKM(g_hufCalled == 1 && !ZSTD_isError(g_hufRet), "a Huffman-coded section is emitted only after the coder succeeded");
            VCHECKM(regen == srcSize, "compressed literals header announces exactly the number of literals (regenerated size field)");
            VCHECKM(comp == g_hufRet, "compressed literals header announces exactly the compressed size");
            VCHECKM(r == hdr + g_hufRet, "section size = header + compressed payload");
            VCHECKM(streams == g_hufStreams, "stream-count flag matches the coder that produced the payload");
            VCHECKM(g_hufRet < srcSize, "a Huffman-coded section is never larger than raw literals would be");
            if (type == set_repeat) VCHECKM(g_prev.repeatMode != HUF_repeat_none, "treeless literals only when a previous table exists");
        }
        VWITNESS(type == set_compressed && hdr == 4 && srcSize == 16383);
        VWITNESS(type == set_compressed && hdr == 5 && srcSize == 16384);
        VWITNESS(type == set_compressed && hdr == 3 && streams == 1);
        VWITNESS(type == set_rle && srcSize > 4095);
        VWITNESS(type == set_basic && srcSize == 32);
        VWITNESS(type == set_repeat);
    }
    VWITNESS(ZSTD_isError(r));
}
