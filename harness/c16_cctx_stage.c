/* @harness c16.cctx
 * @props C16
 * @tier quick
 * @functions ZSTD_CCtx_setParameter ZSTD_isUpdateAuthorized ZSTD_CCtx_getParameter ZSTD_CCtx_reset ZSTD_CCtxParams_reset ZSTD_CCtxParams_init ZSTD_clearAllDicts ZSTD_CCtx_setPledgedSrcSize ZSTD_CCtx_setParametersUsingCCtxParams ZSTD_CCtx_setCParams ZSTD_CCtx_setFParams
 * @bounds parameter id and value: every 32-bit int; streamStage: every enum value; requestedParams: every byte arbitrary; staticSize, pledged size: any; no dictionaries attached (NULL local/prefix/cdict)
 * @assume oracle for mid-frame updates is the list documented in zstd.h for ZSTD_CCtx_setParameter (compressionLevel, hashLog, chainLog, searchLog, minMatch, targetLength, strategy)
 * @assume default values = what ZSTD_CCtxParams_init(ZSTD_CLEVEL_DEFAULT) stores, read through the public getter
 * @outside freeing of attached dictionaries on reset (C13 covers allocation balance); MT context parameter push
 * @link lib/common/zstd_common.c lib/common/error_private.c
 * @mem native
 * @defs -DZSTD_MULTITHREAD
 * @cbmc --unwind 4 --unwindset v_fill_nondet.0:400,memcmp.0:400
 * @timeout 900
 * @memgb 4
 * @instance stage -DH_STAGE
 * @instance reset -DH_RESET
 * @instance bulk -DH_BULK
 */
#include "v.h"
#include <string.h>
#include "compress/zstd_compress.c"

static ZSTD_CCtx g_cctx;   /* zero-initialised: no dictionaries, no workspace */

static int documented_midframe(int p) {
    return p == ZSTD_c_compressionLevel || p == ZSTD_c_hashLog || p == ZSTD_c_chainLog || p == ZSTD_c_searchLog
        || p == ZSTD_c_minMatch || p == ZSTD_c_targetLength || p == ZSTD_c_strategy;
}

#ifdef H_STAGE
void harness(void)
{
    ZSTD_CCtx* const cctx = &g_cctx;
    ZSTD_CCtx_params before, model;
    int const param = nondet_int(), value = nondet_int();
    v_fill_nondet(&cctx->requestedParams, sizeof cctx->requestedParams);
    cctx->streamStage = (ZSTD_cStreamStage)nondet_uint();
    VASSUME(cctx->streamStage == zcss_init || cctx->streamStage == zcss_load || cctx->streamStage == zcss_flush);
    cctx->staticSize = nondet_size();
    memcpy(&before, &cctx->requestedParams, sizeof before);
    memcpy(&model, &cctx->requestedParams, sizeof model);
    {   size_t const r = ZSTD_CCtx_setParameter(cctx, (ZSTD_cParameter)param, value);
        size_t const rm = ZSTD_CCtxParams_setParameter(&model, (ZSTD_cParameter)param, value);
        if (cctx->streamStage != zcss_init && !documented_midframe(param))
            VCHECKM(ZSTD_isError(r), "mid-frame: a parameter outside the documented updatable list is refused");
        if (ZSTD_isError(r))
            VCHECKM(memcmp(&cctx->requestedParams, &before, sizeof before) == 0, "refused set leaves requested parameters unchanged");
        else {
            /* accepted: behaves exactly like the params-level setter (already checked by c16.cparam_grid) */
            VCHECKM(!ZSTD_isError(rm), "context-level accept implies params-level accept");
            VCHECKM(memcmp(&cctx->requestedParams, &model, sizeof model) == 0, "context-level set stores what the params-level setter stores");
        }
        if (cctx->streamStage == zcss_init && !ZSTD_isError(rm) && !(param == ZSTD_c_nbWorkers && value != 0 && cctx->staticSize))
            VCHECKM(!ZSTD_isError(r), "init stage: everything the params-level setter accepts is accepted");
        if (param == ZSTD_c_nbWorkers && value != 0 && cctx->staticSize)
            VCHECKM(ZSTD_isError(r), "workers refused on a static context");
        VWITNESS(cctx->streamStage == zcss_load && !ZSTD_isError(r));
        VWITNESS(cctx->streamStage == zcss_load && ZSTD_isError(r) && param == ZSTD_c_windowLog);
        VWITNESS(cctx->streamStage == zcss_init && !ZSTD_isError(r) && param == ZSTD_c_checksumFlag);
    }
    {   /* pledged size and bulk setters are init-stage only */
        unsigned long long const pl = nondet_u64();
        unsigned long long const plBefore = cctx->pledgedSrcSizePlusOne;
        size_t const rp = ZSTD_CCtx_setPledgedSrcSize(cctx, pl);
        if (cctx->streamStage != zcss_init) VCHECKM(ZSTD_isError(rp) && cctx->pledgedSrcSizePlusOne == plBefore, "pledged size refused mid-frame, unchanged");
        else VCHECKM(!ZSTD_isError(rp) && cctx->pledgedSrcSizePlusOne == pl + 1, "pledged size stored in init stage");
    }
}
#endif

#ifdef H_BULK
void harness(void)
{
    ZSTD_CCtx* const cctx = &g_cctx;
    ZSTD_CCtx_params before, in;
    v_fill_nondet(&cctx->requestedParams, sizeof cctx->requestedParams);
    v_fill_nondet(&in, sizeof in);
    cctx->streamStage = (ZSTD_cStreamStage)nondet_uint();
    VASSUME(cctx->streamStage == zcss_init || cctx->streamStage == zcss_load || cctx->streamStage == zcss_flush);
    memcpy(&before, &cctx->requestedParams, sizeof before);
    {   size_t const r = ZSTD_CCtx_setParametersUsingCCtxParams(cctx, &in);
        if (cctx->streamStage != zcss_init) VCHECKM(ZSTD_isError(r), "bulk parameter load refused mid-frame");
        if (ZSTD_isError(r)) VCHECKM(memcmp(&cctx->requestedParams, &before, sizeof before) == 0, "refused bulk load changes nothing");
        else VCHECKM(memcmp(&cctx->requestedParams, &in, sizeof in) == 0, "bulk load stores the given parameters");
        VWITNESS(!ZSTD_isError(r));
        VWITNESS(ZSTD_isError(r));
    }
    {   /* setCParams: all or nothing */
        ZSTD_compressionParameters cp;
        ZSTD_CCtx_params b2;
        v_fill_nondet(&cp, sizeof cp);
        memcpy(&b2, &cctx->requestedParams, sizeof b2);
        {   size_t const r = ZSTD_CCtx_setCParams(cctx, cp);
            if (ZSTD_isError(ZSTD_checkCParams(cp))) {
                VCHECKM(ZSTD_isError(r), "invalid cParams refused");
                VCHECKM(memcmp(&cctx->requestedParams, &b2, sizeof b2) == 0, "invalid cParams change nothing");
            }
            if (!ZSTD_isError(r)) {
                VCHECKM(cctx->requestedParams.cParams.windowLog == cp.windowLog && cctx->requestedParams.cParams.chainLog == cp.chainLog
                     && cctx->requestedParams.cParams.hashLog == cp.hashLog && cctx->requestedParams.cParams.searchLog == cp.searchLog
                     && cctx->requestedParams.cParams.minMatch == cp.minMatch && cctx->requestedParams.cParams.targetLength == cp.targetLength
                     && cctx->requestedParams.cParams.strategy == cp.strategy, "accepted cParams stored field by field");
                VWITNESS(cp.windowLog == 24);
            }
        }
    }
}
#endif

#ifdef H_RESET
void harness(void)
{
    ZSTD_CCtx* const cctx = &g_cctx;
    static ZSTD_CCtx_params fresh;
    ZSTD_CCtx_params before;
    int const q = nondet_int();
    unsigned const directive = nondet_uint();
    VASSUME(directive == ZSTD_reset_session_only || directive == ZSTD_reset_parameters || directive == ZSTD_reset_session_and_parameters);
    v_fill_nondet(&cctx->requestedParams, sizeof cctx->requestedParams);
    cctx->streamStage = (ZSTD_cStreamStage)nondet_uint();
    VASSUME(cctx->streamStage == zcss_init || cctx->streamStage == zcss_load || cctx->streamStage == zcss_flush);
    cctx->pledgedSrcSizePlusOne = nondet_u64();
    {   /* a previously referenced prefix / cdict must be dropped by a parameter reset */
        static const char pfx[4] = "abc";
        cctx->prefixDict.dict = nondet_bool() ? pfx : NULL;
        cctx->prefixDict.dictSize = cctx->prefixDict.dict ? 3 : 0;
        cctx->cdict = nondet_bool() ? (const ZSTD_CDict*)pfx : NULL;   /* opaque, never dereferenced by reset */
    }
    memcpy(&before, &cctx->requestedParams, sizeof before);
    ZSTD_CCtxParams_init(&fresh, ZSTD_CLEVEL_DEFAULT);
    {   ZSTD_cStreamStage const stage0 = cctx->streamStage;
        size_t const r = ZSTD_CCtx_reset(cctx, (ZSTD_ResetDirective)directive);
        int got = 0, def = 0;
        if (directive == ZSTD_reset_session_only) {
            VCHECKM(!ZSTD_isError(r), "session reset always succeeds");
            VCHECKM(cctx->streamStage == zcss_init && cctx->pledgedSrcSizePlusOne == 0, "session reset returns to init stage and forgets the pledged size");
            VCHECKM(memcmp(&cctx->requestedParams, &before, sizeof before) == 0, "session reset keeps every parameter");
        } else if (directive == ZSTD_reset_parameters && stage0 != zcss_init) {
            VCHECKM(ZSTD_isError(r), "parameter reset refused mid-frame");
            VCHECKM(memcmp(&cctx->requestedParams, &before, sizeof before) == 0, "refused reset changes nothing");
        } else {
            VCHECKM(!ZSTD_isError(r), "parameter reset accepted in init stage");
            VCHECKM(cctx->prefixDict.dict == NULL && cctx->cdict == NULL && cctx->localDict.dict == NULL, "parameter reset drops dictionaries");
            {   size_t const g1 = ZSTD_CCtx_getParameter(cctx, (ZSTD_cParameter)q, &got);
                size_t const g0 = ZSTD_CCtxParams_getParameter(&fresh, (ZSTD_cParameter)q, &def);
                VCHECKM(ZSTD_isError(g1) == ZSTD_isError(g0), "same parameters readable after reset as on fresh params");
                if (!ZSTD_isError(g1)) VCHECKM(got == def, "after a parameter reset every parameter reads back its default");
                VWITNESS(!ZSTD_isError(g1) && q == ZSTD_c_maxBlockSize);
                VWITNESS(!ZSTD_isError(g1) && q == ZSTD_c_compressionLevel && got == ZSTD_CLEVEL_DEFAULT);
            }
        }
        VWITNESS(directive == ZSTD_reset_parameters && stage0 != zcss_init);
    }
}
#endif
