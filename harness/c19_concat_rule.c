/* @harness c19.concat_rule
 * @props C19
 * @tier quick
 * @functions FIO_multiFilesConcatWarning
 * @bounds the rule that decides whether --rm stays in force before a multi-file run: ANY number of input files (full int range), output to stdout or not, test mode or not, single output name given or not, overwrite flag any, display level any, user's answer to the confirmation prompt any
 * @bounds decided: whenever the function lets the run proceed with source removal still enabled, the output stands for the source - not stdout, not test mode, and not several inputs concatenated into one output; with removal requested together with stdout output or test mode the function never returns (hard failure); without -f, concatenating several inputs into one file proceeds only after the user confirmed (or is refused in quiet mode)
 * @assume UTIL_requireUserConfirmation returns the user's answer (arbitrary); exit() does not return
 * @outside how zstdcli.c fills these fields from the command line
 * @link lib/common/zstd_common.c lib/common/error_private.c
 * @mem native
 * @cbmc --unwind 4
 * @timeout 300
 * @memgb 4
 */
#include "v.h"
#include <stdio.h>
#include <stdlib.h>
struct FIO_ctx_s; struct FIO_prefs_s;
#include "fileio.c"

static int g_asked, g_answer;
int UTIL_requireUserConfirmation(const char* prompt, const char* abortMsg, const char* acceptableLetters, int hasStdinInput)
{ (void)prompt; (void)abortMsg; (void)acceptableLetters; (void)hasStdinInput; g_asked++; g_answer = nondet_bool(); return g_answer; }

void harness(void)
{
    static FIO_ctx_t fctx; static FIO_prefs_t prefs; int r; int const cutoff = nondet_int();
    int const named = nondet_bool(); int rm0, test0, stdout0, over0;
    fctx.nbFilesTotal = nondet_int(); VASSUME(fctx.nbFilesTotal >= 1);
    fctx.hasStdoutOutput = nondet_bool(); fctx.hasStdinInput = nondet_bool();
    prefs.removeSrcFile = nondet_bool(); prefs.testMode = nondet_bool(); prefs.overwrite = nondet_bool();
    g_display_prefs.displayLevel = nondet_int(); VASSUME(g_display_prefs.displayLevel >= 0 && g_display_prefs.displayLevel <= 5);
    rm0 = prefs.removeSrcFile; test0 = prefs.testMode; stdout0 = fctx.hasStdoutOutput; over0 = prefs.overwrite;
    r = FIO_multiFilesConcatWarning(&fctx, &prefs, named ? "out" : NULL, cutoff);
    /* reached only if the function returned */
    VCHECKM(!(rm0 && (stdout0 || test0)), "source removal together with stdout output or test mode never gets past this point");
    if (prefs.removeSrcFile) VCHECKM(rm0 && !stdout0 && !test0 && (fctx.nbFilesTotal == 1 || !named), "removal stays enabled only when each output stands for its source");
    if (r == 0 && !test0 && fctx.nbFilesTotal > 1 && named && !stdout0 && !over0) VCHECKM(g_asked == 1 && g_answer == 0, "several inputs into one existing-or-new file without -f proceed only after the user agreed");
    if (r != 0) VCHECKM(fctx.nbFilesTotal > 1 && named && !stdout0 && !over0 && !test0, "the run is refused only in the concatenation-without-force case");
    VWITNESS(r != 0 && g_asked == 0);
    VWITNESS(r == 0 && rm0 && !prefs.removeSrcFile);
    VWITNESS(r == 0 && prefs.removeSrcFile && fctx.nbFilesTotal > 1);
}
