/* @harness c12
 * @props C12 C11
 * @tier quick
 * @functions POOL_thread POOL_add POOL_add_internal POOL_tryAdd isQueueFull POOL_joinJobs POOL_resize POOL_resize_internal POOL_join POOL_free POOL_create_advanced
 * @bounds rely/guarantee step harnesses: ONE execution of each pool function from an ARBITRARY pool state satisfying the invariant I_p (queueSize 1..3, threads 1..3, any head/tail/busy/limit/shutdown, any queued job tokens); at every lock acquisition and every condition wait the shared state is replaced by another arbitrary I_p state (= anything the other threads may have done, subject to the rely: shutdown is monotone); at most 2 condition waits per call (a third is cut by assumption: spurious wake-ups beyond 2 are outside)
 * @assume pthread primitives are a monitor stub: lock/unlock ownership is checked, a wait requires the mutex, signals/broadcasts are logged per condition variable; threads are never really run (pthread_create records the start routine, may fail)
 * @assume liveness (no lost wake-up, no deadlock) is ARGUED from the discharged wake-up obligations (every transition that makes a waited-for predicate true signals/broadcasts the matching condition before releasing the mutex, and every wait sits in a re-check loop), it is not explored; real interleavings of unmonitored accesses are outside
 * @outside CBMC's native thread encoding (rejects pool.c: pointer handling for concurrency is unsound); schedules; more than 3 threads / queue slots
 * @link lib/common/zstd_common.c lib/common/error_private.c
 * @defs -DZSTD_MULTITHREAD
 * @mem native
 * @cbmc --unwind 6 --unwindset harness.0:10,harness.1:10,harness.2:10,harness.3:10
 * @timeout 300
 * @memgb 4
 * @instance worker -DH_WORKER
 * @instance add -DH_ADD
 * @instance tryadd -DH_TRYADD
 * @instance joinjobs -DH_JOINJOBS
 * @instance resize mem=loop cbmc="--unwindset __builtin_memcpy.0:34,__builtin_memset.0:34" -DH_RESIZE
 * @instance free -DH_FREE
 * @instance create -DH_CREATE
 */
#include "v.h"
#include <string.h>
#include <pthread.h>
#include "common/pool.c"

#define QMAX 3
#define TMAX 3

/* ------------------------------------------------------------------ ghost + monitor */
static POOL_ctx* G;
static int held;                 /* does "this thread" own queueMutex */
static int nLocks, nWaits, nUnlocks;
static int sigPush, sigPop, bcPush, bcPop;      /* signals / broadcasts since the last observation point */
static int waitedOnPush, waitedOnPop;
static int ranTotal, ranToken;                  /* jobs executed by this thread */
static int jobRanWhileHeld;
static int cutAtLock;                           /* worker harness: stop at this lock acquisition */
static int created, createFailAt, joined;
static void* startArg[8]; static void* (*startFn[8])(void*);

/* observation = shared state as last seen under the mutex (after the last havoc) */
static struct { size_t head, tail, busy, limit; int empty, shutdown; size_t tok[QMAX]; } O;

static int inv(const POOL_ctx* c) {
    return c->queueSize >= 1 && c->queueSize <= QMAX && c->queueHead < c->queueSize && c->queueTail < c->queueSize
        && c->threadCapacity >= 1 && c->threadCapacity <= TMAX && c->threadLimit >= 1 && c->threadLimit <= c->threadCapacity
        && c->numThreadsBusy <= c->threadCapacity
        && (c->queueEmpty == 0 || c->queueEmpty == 1) && (c->shutdown == 0 || c->shutdown == 1)
        && (c->queueSize > 1 ? (c->queueEmpty == (c->queueHead == c->queueTail)) : (c->queueHead == 0 && c->queueTail == 0));
}
static size_t qlen(const POOL_ctx* c) {
    if (c->queueEmpty) return 0;
    if (c->queueSize == 1) return 1;
    return (c->queueTail + c->queueSize - c->queueHead) % c->queueSize;
}
static int myBusy;               /* this thread's own contribution to numThreadsBusy (part of the rely) */
static void job(void* p);

static void observe(void) {
    size_t i;
    O.head = G->queueHead; O.tail = G->queueTail; O.busy = G->numThreadsBusy; O.limit = G->threadLimit;
    O.empty = G->queueEmpty; O.shutdown = G->shutdown;
    for (i = 0; i < QMAX; i++) O.tok[i] = (i < G->queueSize) ? (size_t)G->queue[i].opaque : 0;
    sigPush = sigPop = bcPush = bcPop = 0;
}
/* rely: other threads may do anything that keeps I_p; shutdown never goes back to 0 */
static void havoc_rely(void) {
    int const sd = G->shutdown; size_t i;
    G->queueHead = nondet_size(); G->queueTail = nondet_size(); G->queueEmpty = nondet_int();
    G->numThreadsBusy = nondet_size(); G->threadLimit = nondet_size(); G->shutdown = nondet_int();
    VASSUME(inv(G));
    VASSUME(G->shutdown >= sd);
    VASSUME(G->numThreadsBusy >= (size_t)myBusy);
    for (i = 0; i < QMAX; i++) if (i < G->queueSize) { G->queue[i].function = job; G->queue[i].opaque = (void*)(size_t)(10 + (nondet_uint() & 3)); }
    observe();
}

int pthread_mutex_init(pthread_mutex_t* m, const pthread_mutexattr_t* a) { (void)m; (void)a; return 0; }
int pthread_mutex_destroy(pthread_mutex_t* m) { (void)m; VCHECKM(!held, "mutex destroyed while held"); return 0; }
int pthread_cond_init(pthread_cond_t* c, const pthread_condattr_t* a) { (void)c; (void)a; return 0; }
int pthread_cond_destroy(pthread_cond_t* c) { (void)c; return 0; }
int pthread_mutex_lock(pthread_mutex_t* m) {
    (void)m;
    VCHECKM(!held, "lock: mutex not already owned by this thread (self-deadlock)");
    nLocks++;
    if (cutAtLock && nLocks == cutAtLock) {
        /* end of the explored worker iteration */
        VCHECKM(ranTotal == 1, "worker iteration: exactly one job executed");
        VCHECKM(G->numThreadsBusy + 1 == O.busy, "after the job the busy count is decremented by exactly one, under the mutex");
        VCHECKM(sigPush + bcPush >= 1, "wake-up obligation: a waiting poster / joinJobs is signalled after a job finishes");
#ifdef H_WORKER
        VWITNESS(nWaits == 1);
        VWITNESS(G->queueSize == 1);
#endif
        VASSUME(0);
    }
    held = 1;
    if (G) havoc_rely();          /* whatever the others did while we did not hold the mutex */
    return 0;
}
int pthread_mutex_unlock(pthread_mutex_t* m) { (void)m; VCHECKM(held, "unlock: mutex owned"); held = 0; nUnlocks++; return 0; }
int pthread_cond_wait(pthread_cond_t* c, pthread_mutex_t* m) {
    (void)m;
    VCHECKM(held, "condition wait requires the mutex");
    nWaits++;
    if (nWaits > 2) VASSUME(0);
    if (G && c == &G->queuePushCond) waitedOnPush++; else waitedOnPop++;
    if (G) havoc_rely();          /* spurious or real wake-up: state is anything the others produced */
    return 0;
}
int pthread_cond_signal(pthread_cond_t* c) { if (G && c == &G->queuePushCond) sigPush++; else sigPop++; return 0; }
int pthread_cond_broadcast(pthread_cond_t* c) { if (G && c == &G->queuePushCond) bcPush++; else bcPop++; return 0; }
int pthread_create(pthread_t* t, const pthread_attr_t* a, void* (*f)(void*), void* arg) {
    (void)a;
    if (created + 1 == createFailAt) return 11;
    startFn[created & 7] = f; startArg[created & 7] = arg;
    created++;
    *t = (pthread_t)(100 + created);
    return 0;
}
int pthread_join(pthread_t t, void** r) { (void)r; VCHECKM((unsigned long)t > 100 && (unsigned long)t <= 100 + (unsigned long)TMAX + 4, "join of a thread handle that was created"); joined++; return 0; }

static POOL_ctx g_ctx; static POOL_job g_queue[QMAX]; static ZSTD_pthread_t g_threads[TMAX];

static void arbitrary_pool(void) {
    G = &g_ctx; G->queue = g_queue; G->threads = g_threads;
    G->queueSize = nondet_size(); G->threadCapacity = nondet_size(); G->shutdown = nondet_bool();
    { size_t i; for (i = 0; i < TMAX; i++) g_threads[i] = (ZSTD_pthread_t)(101 + i); }
    havoc_rely();
}

/* ------------------------------------------------------------------ worker: one iteration */
#ifdef H_WORKER
void harness(void)
{
    void* r;
    arbitrary_pool();
    cutAtLock = 3;               /* lock#1 pop, lock#2 bookkeeping after the job, lock#3 = next iteration: cut */
    r = POOL_thread(G);
    /* reached only if the worker RETURNED */
    VCHECKM(r == (void*)G, "worker returns its context");
    VCHECKM(!held, "worker returns without the mutex");
    VCHECKM(O.shutdown, "worker exits only on shutdown");
    VCHECKM(O.empty || O.busy >= O.limit, "worker exits only when it has nothing it is allowed to run (queued jobs are drained before exit)");
    VCHECKM(ranTotal == 0, "exiting worker iteration ran no job");
    VWITNESS(nWaits == 1);
    VWITNESS(nWaits == 0);
}
#endif

/* the job body: runs on the worker, outside the mutex; the pop obligations are checked here */
static void job(void* p)
{
    if (held) jobRanWhileHeld = 1;
    ranTotal++; ranToken = (int)(size_t)p;
#ifdef H_WORKER
    VCHECKM(!held, "jobs run outside the queue mutex");
    VCHECKM(ranTotal == 1, "a popped job is executed once");
    VCHECKM(!O.empty && O.busy < O.limit, "a job is popped only from a non-empty queue and below the thread limit, as re-checked after every wake-up");
    VCHECKM((size_t)p == O.tok[O.head], "the job executed is the head of the queue");
    VCHECKM(G->queueHead == (O.head + 1) % G->queueSize && G->queueTail == O.tail, "pop advances the head by one and nothing else");
    VCHECKM(G->queueEmpty == (G->queueHead == G->queueTail), "queueEmpty recomputed at pop");
    VCHECKM(G->numThreadsBusy == O.busy + 1, "busy count incremented by exactly one at pop");
    VCHECKM(sigPush + bcPush >= 1, "wake-up obligation: a blocked poster is signalled once a slot is freed");
    myBusy = 1;
#endif
}

#ifdef H_ADD
void harness(void)
{
    size_t len0;
    arbitrary_pool();
    POOL_add(G, job, (void*)7);
    VCHECKM(!held, "add returns without the mutex");
    VCHECKM(inv(G), "pool invariant preserved by add");
    len0 = O.empty ? 0 : (G->queueSize == 1 ? 1 : (O.tail + G->queueSize - O.head) % G->queueSize);
    if (O.shutdown) {
        VCHECKM(qlen(G) == len0 && G->queueHead == O.head && G->queueTail == O.tail, "add during shutdown does not enqueue");
    } else {
        size_t i;
        VCHECKM(qlen(G) == len0 + 1, "accepted job lengthens the queue by exactly one");
        VCHECKM(qlen(G) <= (G->queueSize > 1 ? G->queueSize - 1 : 1), "queue never holds more than its capacity (no pending entry overwritten)");
        VCHECKM(G->queue[O.tail].opaque == (void*)7 && G->queue[O.tail].function == job, "job stored at the tail slot");
        VCHECKM(G->queueHead == O.head && G->queueTail == (O.tail + 1) % G->queueSize, "only the tail advances");
        for (i = 0; i < QMAX; i++) if (i < G->queueSize && i != O.tail) VCHECKM((size_t)G->queue[i].opaque == O.tok[i], "pending entries untouched");
        VCHECKM(sigPop + bcPop >= 1, "wake-up obligation: a worker is signalled when the queue becomes non-empty");
        if (G->queueSize == 1) VCHECKM(O.empty, "hand-off queue accepts only when nothing is pending");
    }
    VCHECKM(G->numThreadsBusy == O.busy && G->threadLimit == O.limit, "add does not touch thread accounting");
    if (nWaits) VCHECKM(waitedOnPush == nWaits, "a blocked poster waits on the push condition");
    VWITNESS(nWaits == 2 && !O.shutdown);
    VWITNESS(nWaits == 0 && G->queueSize == 1);
    VWITNESS(O.shutdown);
}
#endif

#ifdef H_TRYADD
void harness(void)
{
    size_t len0; int r;
    arbitrary_pool();
    r = POOL_tryAdd(G, job, (void*)7);
    VCHECKM(!held, "tryAdd returns without the mutex");
    VCHECKM(inv(G), "pool invariant preserved by tryAdd");
    VCHECKM(nWaits == 0, "tryAdd never blocks");
    len0 = O.empty ? 0 : (G->queueSize == 1 ? 1 : (O.tail + G->queueSize - O.head) % G->queueSize);
    if (r == 0) {
        size_t i;
        VCHECKM(qlen(G) == len0 && G->queueHead == O.head && G->queueTail == O.tail && G->queueEmpty == O.empty, "refusal leaves the queue unchanged");
        for (i = 0; i < QMAX; i++) if (i < G->queueSize) VCHECKM((size_t)G->queue[i].opaque == O.tok[i], "refusal loses and duplicates nothing");
    } else if (!O.shutdown) {
        VCHECKM(qlen(G) == len0 + 1 && G->queue[O.tail].opaque == (void*)7, "accepted job is queued exactly once at the tail");
        VCHECKM(qlen(G) <= (G->queueSize > 1 ? G->queueSize - 1 : 1), "queue never holds more than its capacity");
        VCHECKM(sigPop + bcPop >= 1, "wake-up obligation: a worker is signalled");
    }
    VCHECKM(G->numThreadsBusy == O.busy, "tryAdd does not touch thread accounting");
    VWITNESS(r == 0);
    VWITNESS(r == 1 && G->queueSize == 3);
}
#endif

#ifdef H_JOINJOBS
void harness(void)
{
    arbitrary_pool();
    POOL_joinJobs(G);
    VCHECKM(!held, "joinJobs returns without the mutex");
    VCHECKM(O.empty && O.busy == 0, "joinJobs returns only from a state, observed under the mutex, with an empty queue and no busy thread");
    if (nWaits) VCHECKM(waitedOnPush == nWaits, "joinJobs waits on the condition the workers signal after finishing a job");
    VWITNESS(nWaits == 2);
    VWITNESS(nWaits == 0);
}
#endif

#ifdef H_RESIZE
void harness(void)
{
    size_t const n = nondet_size(); int r; size_t i;
    size_t cap0, lim0; ZSTD_pthread_t old[TMAX];
    VASSUME(n <= TMAX + 1);
    arbitrary_pool();
    /* resize may reallocate the handle array: give it a heap one */
    G->threads = (ZSTD_pthread_t*)malloc(G->threadCapacity * sizeof(ZSTD_pthread_t));
    for (i = 0; i < TMAX; i++) if (i < G->threadCapacity) { G->threads[i] = (ZSTD_pthread_t)(101 + i); old[i] = G->threads[i]; }
    created = (int)G->threadCapacity;
    createFailAt = nondet_int();
    G->customMem = ZSTD_defaultCMem;
    cap0 = G->threadCapacity;
    r = POOL_resize(G, n);
    lim0 = O.limit;
    VCHECKM(!held, "resize returns without the mutex");
    VCHECKM(inv(G) || G->threadCapacity > TMAX, "pool invariant preserved by resize");
    VCHECKM(G->queueHead == O.head && G->queueTail == O.tail && G->queueEmpty == O.empty, "resize never touches the queue (queued jobs are not stranded or dropped)");
    for (i = 0; i < QMAX; i++) if (i < G->queueSize) VCHECKM((size_t)G->queue[i].opaque == O.tok[i], "queued jobs untouched by resize");
    VCHECKM(G->threadCapacity >= cap0, "resize never forgets a created thread");
    for (i = 0; i < TMAX; i++) if (i < cap0) VCHECKM(G->threads[i] == old[i], "existing thread handles are kept");
    VCHECKM((size_t)created == G->threadCapacity, "every created thread is recorded in the capacity (joinable at free)");
    if (r == 0) VCHECKM(n >= 1 && G->threadLimit == n, "successful resize sets the thread limit");
    if (G->threadLimit != lim0) VCHECKM(bcPop >= 1, "wake-up obligation: workers sleeping on the thread limit are broadcast when the limit changes");
    VWITNESS(r == 0 && n > cap0);
    VWITNESS(r == 0 && n < cap0);
    VWITNESS(r != 0 && n > cap0);
}
#endif

#ifdef H_FREE
void harness(void)
{
    size_t cap0;
    arbitrary_pool();
    G = NULL;                                        /* allocate the real thing so that frees are checked */
    {   POOL_ctx* const c = (POOL_ctx*)malloc(sizeof(POOL_ctx));
        memcpy(c, &g_ctx, sizeof *c);
        c->queue = (POOL_job*)malloc(c->queueSize * sizeof(POOL_job));
        c->threads = (ZSTD_pthread_t*)malloc(c->threadCapacity * sizeof(ZSTD_pthread_t));
        { size_t i; for (i = 0; i < TMAX; i++) if (i < c->threadCapacity) c->threads[i] = (ZSTD_pthread_t)(101 + i); }
        c->customMem = ZSTD_defaultCMem;
        cap0 = c->threadCapacity;
        G = c;
        POOL_free(c);
    }
    VCHECKM(!held, "free returns without the mutex");
    VCHECKM((size_t)joined == cap0, "every created worker is joined exactly once");
    VCHECKM(bcPush >= 1 && bcPop >= 1, "both conditions are broadcast so that every sleeping thread sees the shutdown");
    VCHECKM(nLocks >= 1, "shutdown flag is published under the mutex");
    VWITNESS(cap0 == 3);
}
#endif

#ifdef H_CREATE
void harness(void)
{
    size_t const nt = nondet_size(), qs = nondet_size();
    POOL_ctx* c;
    VASSUME(nt <= TMAX && qs <= QMAX - 1);
    createFailAt = nondet_int();
    c = POOL_create_advanced(nt, qs, ZSTD_defaultCMem);
    if (c) {
        size_t i;
        VCHECKM(inv(c), "a created pool satisfies the pool invariant");
        VCHECKM(c->queueEmpty && c->numThreadsBusy == 0 && !c->shutdown && c->threadLimit == nt && c->threadCapacity == nt && c->queueSize == qs + 1, "initial state: empty queue, no busy thread, limit = capacity = requested");
        VCHECKM((size_t)created == nt, "one worker created per requested thread");
        for (i = 0; i < 8; i++) if (i < nt) VCHECKM(startFn[i] == POOL_thread && startArg[i] == (void*)c, "workers start in POOL_thread on this pool");
        VWITNESS(nt == 3 && qs == 0);
    } else {
        VCHECKM(created == joined, "failed creation joins every worker it started");
        VWITNESS(nt == 3 && created == 2);
        VWITNESS(nt == 0);
    }
}
#endif
