/* @harness c19.multi
 * @props C19
 * @tier quick
 * @functions FIO_decompressMultipleFilenames FIO_compressMultipleFilenames
 * @bounds 1..3 input files, every combination of per-file verdicts (0 = the library accepted the file, 1 = rejected), destination-name derivation may fail for any file, single-output (-o / -c) or one output per input, concatenation refused or not, destination openable or not
 * @assume the two functions' text is re-extracted from /repo at every run and compiled against stubs of everything they call: per-file functions return the symbolic verdicts, resources are opaque handles, name helpers return a name or NULL, display/summary helpers are empty (formatting is not the subject)
 * @outside the per-file functions themselves (c19.compress_file / c19.decompress_file), option parsing in zstdcli.c, directory recursion
 * @prep extract programs/fileio.c FIO_decompressMultipleFilenames,FIO_compressMultipleFilenames fio_multi.inc
 * @link lib/common/zstd_common.c lib/common/error_private.c
 * @mem native
 * @cbmc --unwind 6
 * @timeout 300
 * @memgb 4
 */
#include "v.h"
#include <stdio.h>
#include <stdlib.h>
#include <string.h>
#include <errno.h>
#include <assert.h>
#include "zstd.h"
#include "fileio.h"
#include "fileio_common.h"
FIO_display_prefs_t g_display_prefs = { 0, FIO_ps_never };
UTIL_time_t g_displayClock;
struct FIO_ctx_s { int nbFilesTotal; int hasStdinInput; int hasStdoutOutput; int currFileIdx; int nbFilesProcessed; size_t totalBytesInput; size_t totalBytesOutput; };
#ifndef DEFAULT_FILE_PERMISSIONS
#define DEFAULT_FILE_PERMISSIONS 0644
#endif
typedef struct { void* writeCtx; } dRess_t;
typedef struct { void* writeCtx; } cRess_t;

#define NFMAX 3
static int g_verdict[NFMAX], g_nameFails[NFMAX], g_called[NFMAX], g_concatRefused, g_openFails, g_freed, g_created, g_closed;
static const char* g_names[NFMAX] = { "a.zst", "b.zst", "c.zst" };
static int idx_of(const char* n) { int i; for (i = 0; i < NFMAX; i++) if (n == g_names[i]) return i; return -1; }

static dRess_t FIO_createDResources(FIO_prefs_t* const prefs, const char* dictFileName) { dRess_t r; (void)prefs; (void)dictFileName; r.writeCtx = &g_created; g_created++; return r; }
static void FIO_freeDResources(dRess_t ress) { (void)ress; g_freed++; }
static cRess_t FIO_createCResources(FIO_prefs_t* const prefs, const char* dictFileName, unsigned long long const maxSrcFileSize, int cLevel, ZSTD_compressionParameters comprParams) { cRess_t r; (void)prefs; (void)dictFileName; (void)maxSrcFileSize; (void)cLevel; (void)comprParams; r.writeCtx = &g_created; g_created++; return r; }
static void FIO_freeCResources(cRess_t* const ress) { (void)ress; g_freed++; }
static unsigned long long FIO_getLargestFileSize(const char** inFileNames, unsigned nbFiles) { (void)inFileNames; (void)nbFiles; return 0; }
static int FIO_multiFilesConcatWarning(const FIO_ctx_t* fCtx, FIO_prefs_t* prefs, const char* outFileName, int displayLevelCutoff) { (void)fCtx; (void)prefs; (void)outFileName; (void)displayLevelCutoff; return g_concatRefused; }
static FILE* FIO_openDstFile(FIO_ctx_t* fCtx, FIO_prefs_t* const prefs, const char* srcFileName, const char* dstFileName, const int mode) { (void)fCtx; (void)prefs; (void)srcFileName; (void)dstFileName; (void)mode; return g_openFails ? NULL : (FILE*)&g_created; }
static void AIO_WritePool_setFile(void* ctx, FILE* file) { (void)ctx; (void)file; }
static int AIO_WritePool_closeFile(void* ctx) { (void)ctx; g_closed++; return 0; }
static int FIO_decompressSrcFile(FIO_ctx_t* const fCtx, FIO_prefs_t* const prefs, dRess_t ress, const char* dstFileName, const char* srcFileName)
{ int const i = idx_of(srcFileName); (void)fCtx; (void)prefs; (void)ress; (void)dstFileName; VCHECKM(i >= 0, "per-file function called with one of the given names"); if (i < 0) return 1; g_called[i]++; return g_verdict[i]; }
static int FIO_compressFilename_srcFile(FIO_ctx_t* const fCtx, FIO_prefs_t* const prefs, cRess_t ress, const char* dstFileName, const char* srcFileName, int compressionLevel)
{ int const i = idx_of(srcFileName); (void)fCtx; (void)prefs; (void)ress; (void)dstFileName; (void)compressionLevel; VCHECKM(i >= 0, "per-file function called with one of the given names"); if (i < 0) return 1; g_called[i]++; return g_verdict[i]; }
static const char* FIO_determineDstName(const char* srcFileName, const char* outDirName) { int const i = idx_of(srcFileName); (void)outDirName; return (i >= 0 && g_nameFails[i]) ? NULL : "out"; }
static const char* FIO_determineCompressedName(const char* srcFileName, const char* outDirName, const char* suffix) { (void)srcFileName; (void)outDirName; (void)suffix; return "out.zst"; }
static void UTIL_mirrorSourceFilesDirectories_stub(void) {}
#define UTIL_mirrorSourceFilesDirectories(a,b,c) UTIL_mirrorSourceFilesDirectories_stub()
#define UTIL_createMirroredDestDirName(a,b) ((char*)NULL)
int FIO_checkFilenameCollisions(const char** filenameTable, unsigned nbFiles) { (void)filenameTable; (void)nbFiles; return 0; }
static int FIO_shouldDisplayMultipleFileSummary(FIO_ctx_t const* fCtx) { (void)fCtx; return 0; }
#undef DISPLAY_PROGRESS
#define DISPLAY_PROGRESS(...) ((void)0)
#undef DISPLAY_SUMMARY
#define DISPLAY_SUMMARY(...) ((void)0)
#undef DISPLAYLEVEL
#define DISPLAYLEVEL(l, ...) ((void)0)
#define UTIL_makeHumanReadableSize(x) g_hr
static UTIL_HumanReadableSize_t g_hr;

#include "fio_multi.inc"

void harness(void)
{
    struct FIO_ctx_s ctx; FIO_prefs_t* prefs = (FIO_prefs_t*)malloc(sizeof(FIO_prefs_t)); int i, r, expectFail = 0;
    int const n = (int)(nondet_uint() & 3); int const single = nondet_bool(); int const compress = nondet_bool();
    static ZSTD_compressionParameters cp;
    VASSUME(prefs && n >= 1 && n <= NFMAX);
    memset(&ctx, 0, sizeof ctx); ctx.nbFilesTotal = n;
    memset(prefs, 0, sizeof *prefs); prefs->testMode = 0;
    for (i = 0; i < NFMAX; i++) { g_verdict[i] = nondet_bool(); g_nameFails[i] = compress ? 0 : nondet_bool(); }
    g_concatRefused = nondet_bool(); g_openFails = compress ? nondet_bool() : 0;
    if (compress) r = FIO_compressMultipleFilenames((FIO_ctx_t*)&ctx, prefs, g_names, NULL, NULL, single ? "out" : NULL, ".zst", NULL, 3, cp);
    else r = FIO_decompressMultipleFilenames((FIO_ctx_t*)&ctx, prefs, g_names, NULL, NULL, single ? "out" : NULL, NULL);
    /* the verdict the user must see */
    if (single && g_concatRefused) expectFail = 1;
    else if (single && g_openFails) expectFail = 1;
    else for (i = 0; i < NFMAX; i++) if (i < n) { if (!single && g_nameFails[i]) expectFail = 1; else if (g_verdict[i]) expectFail = 1; }
    VCHECKM((r != 0) == (expectFail != 0), "exit status is non-zero exactly when some input file failed (a failure is never masked by a later success)");
    if (!(single && (g_concatRefused || g_openFails)))
        for (i = 0; i < NFMAX; i++) if (i < n && !(!single && g_nameFails[i])) VCHECKM(g_called[i] == 1, "every input file is processed exactly once");
    VCHECKM(g_created == 1 && g_freed == 1, "resources released on every path");
    VWITNESS(n == 3 && g_verdict[0] == 1 && g_verdict[2] == 0 && !single && !compress);
    VWITNESS(n == 2 && single && compress && r == 0);
    VWITNESS(single && g_concatRefused);
}
