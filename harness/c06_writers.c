/* @harness c06.writers
 * @props C06 C05 C01
 * @tier quick
 * @functions ZSTD_noCompressBlock ZSTD_rleCompressBlock ZSTD_writeLastEmptyBlock ZSTD_writeSkippableFrame ZSTD_writeEpilogue ZSTD_writeFrameHeader ZSTD_getcBlockSize
 * @bounds every small frame-level writer under an ARBITRARY capacity 0..40 with an exactly-sized destination object (one byte too many leaves the object): raw block (payload 0..24 arbitrary bytes), RLE block (any byte, any regenerated size below 2^21), last empty block, skippable frame (payload 0..24 bytes, ANY size_t announced size, any magic variant), frame epilogue from every stage (created / init = empty frame / ongoing / ending) with or without checksum, any window log and frame-parameter flags
 * @bounds decided per writer: error <=> the capacity is too small for what it writes (no partial success), success never writes past the capacity, the block header read back by the decoder's ZSTD_getcBlockSize gives the same type / size / last-block bit, raw payload bytes equal the source at an arbitrary index, the epilogue's checksum field is the low 32 bits of the digest
 * @assume XXH64_digest is uninterpreted (arbitrary value); block size limit for the read-back is the format maximum (128 KiB)
 * @outside compressed blocks and their entropy writers at real sizes (C01 stage harnesses); ZSTD_compressBound's relation to these writers (c06.bound_lemma)
 * @prep extract lib/decompress/zstd_decompress_block.c ZSTD_getcBlockSize blkw.inc
 * @link lib/common/zstd_common.c lib/common/error_private.c
 * @mem loop
 * @cbmc --unwind 4 --unwindset __builtin_memcpy.0:26,__builtin_memset.0:26,harness.0:26,harness.1:26,harness.2:42
 * @timeout 300
 * @memgb 6
 */
#include "v.h"
#include <string.h>
#include <stdlib.h>
#include "compress/zstd_compress.c"
#include "blkw.inc"
static U64 g_digest;
XXH64_hash_t XXH64_digest(const XXH64_state_t* s) { (void)s; return g_digest; }

#define MAXCAP 40
#define MAXSRC 24
static ZSTD_CCtx g_cctx;

void harness(void)
{
    size_t const cap = nondet_size(); size_t const srcSize = nondet_size();
    unsigned const which = nondet_uint(); U32 const last = nondet_bool();
    BYTE* dst; BYTE* src; size_t r, i;
    VASSUME(cap <= MAXCAP && srcSize <= MAXSRC && which <= 4);
    dst = (BYTE*)malloc(cap ? cap : 1); src = (BYTE*)malloc(srcSize ? srcSize : 1); VASSUME(dst && src);
    if (cap == 0) { free(dst); dst = (BYTE*)malloc(1); VASSUME(dst); }       /* keep a valid pointer; capacity 0 means nothing may be written: checked through r */
    for (i = 0; i < MAXSRC; i++) if (i < srcSize) src[i] = nondet_uchar();

    if (which == 0) {           /* raw block */
        r = ZSTD_noCompressBlock(dst, cap, src, srcSize, last);
        VCHECKM(ZSTD_isError(r) == (cap < srcSize + 3), "raw block: error exactly when the capacity is below header + payload");
        if (!ZSTD_isError(r)) {
            blockProperties_t bp; size_t const c = ZSTD_getcBlockSize(dst, r, &bp); size_t const k = nondet_size();
            VCHECKM(r == srcSize + 3 && r <= cap, "raw block: size is header + payload");
            VCHECKM(c == srcSize && bp.blockType == bt_raw && bp.lastBlock == last && bp.origSize == srcSize, "raw block header reads back as written");
            VASSUME(k < srcSize);
            VCHECKM(dst[3 + k] == src[k], "raw block payload equals the source");
            VWITNESS(srcSize == MAXSRC && last);
        }
    } else if (which == 1) {    /* RLE block */
        size_t const regen = nondet_size(); BYTE const b = nondet_uchar();
        VASSUME(regen >= 1 && regen <= ZSTD_BLOCKSIZE_MAX);
        r = ZSTD_rleCompressBlock(dst, cap, b, regen, last);
        VCHECKM(ZSTD_isError(r) == (cap < 4), "RLE block: error exactly when fewer than 4 bytes of room");
        if (!ZSTD_isError(r)) {
            blockProperties_t bp; size_t const c = ZSTD_getcBlockSize(dst, r, &bp);
            VCHECKM(r == 4, "RLE block is 4 bytes");
            VCHECKM(c == 1 && bp.blockType == bt_rle && bp.lastBlock == last && bp.origSize == regen && dst[3] == b, "RLE block reads back as written");
            VWITNESS(regen == ZSTD_BLOCKSIZE_MAX);
        }
    } else if (which == 2) {    /* last empty block */
        r = ZSTD_writeLastEmptyBlock(dst, cap);
        VCHECKM(ZSTD_isError(r) == (cap < 3), "last empty block: error exactly when fewer than 3 bytes of room");
        if (!ZSTD_isError(r)) {
            blockProperties_t bp; size_t const c = ZSTD_getcBlockSize(dst, r, &bp);
            VCHECKM(r == 3 && c == 0 && bp.blockType == bt_raw && bp.lastBlock == 1, "last empty block reads back as an empty raw last block");
            VWITNESS(cap == 3);
        }
    } else if (which == 3) {    /* skippable frame: the announced payload size is ANY size_t (only <= MAXSRC bytes are readable) */
        size_t const announced = nondet_size(); unsigned const variant = nondet_uint();
        VASSUME(announced == srcSize || announced > MAXCAP);     /* either the real size, or a size no capacity here can hold */
        r = ZSTD_writeSkippableFrame(dst, cap, src, announced, variant);
        if (announced != srcSize) VCHECKM(ZSTD_isError(r), "skippable frame: a payload larger than the room is refused whatever its size (no wrap of size + 8)");
        else {
            VCHECKM(ZSTD_isError(r) == (cap < srcSize + 8 || variant > 15), "skippable frame: error exactly when the room is too small or the variant is out of range");
            if (!ZSTD_isError(r)) {
                size_t const k = nondet_size();
                VCHECKM(r == srcSize + 8 && r <= cap, "skippable frame size is header + payload");
                VCHECKM(MEM_readLE32(dst) == ZSTD_MAGIC_SKIPPABLE_START + variant && MEM_readLE32(dst + 4) == (U32)srcSize, "skippable header: magic variant and payload size");
                VASSUME(k < srcSize);
                VCHECKM(dst[8 + k] == src[k], "skippable payload equals the source");
                VWITNESS(variant == 15 && srcSize == MAXSRC);
            }
        }
    } else {                    /* frame epilogue */
        ZSTD_CCtx* const cctx = &g_cctx; unsigned const st = nondet_uint(); unsigned const fmt = nondet_uint();
        int const cks = nondet_bool(); unsigned st0;
        VASSUME(st <= ZSTDcs_ending && fmt <= ZSTD_f_zstd1_magicless);
        cctx->stage = (ZSTD_compressionStage_e)st; st0 = st;
        cctx->appliedParams.format = (ZSTD_format_e)fmt;
        cctx->appliedParams.fParams.checksumFlag = cks;
        cctx->appliedParams.fParams.contentSizeFlag = nondet_bool();
        cctx->appliedParams.fParams.noDictIDFlag = nondet_bool();
        cctx->appliedParams.cParams.windowLog = nondet_uint(); VASSUME(cctx->appliedParams.cParams.windowLog >= ZSTD_WINDOWLOG_ABSOLUTEMIN && cctx->appliedParams.cParams.windowLog <= ZSTD_WINDOWLOG_MAX);
        g_digest = nondet_u64();
        memset(dst, 0xEE, cap ? cap : 1);
        r = ZSTD_writeEpilogue(cctx, dst, cap);
        if (st0 == ZSTDcs_created) VCHECKM(ZSTD_isError(r), "epilogue without an initialised frame is refused");
        if (!ZSTD_isError(r)) {
            size_t const tail = (cks ? 4 : 0), blk = (st0 != ZSTDcs_ending) ? 3 : 0;
            VCHECKM(r <= cap && r >= tail + blk, "epilogue stays inside the capacity");
            VCHECKM(cctx->stage == ZSTDcs_created, "after the epilogue the context is back to the created stage");
            if (st0 != ZSTDcs_init) VCHECKM(r == tail + blk, "epilogue of a started frame: last empty block (unless one was already marked last) plus optional checksum");
            else VCHECKM(r >= tail + blk + 2 && r <= tail + blk + ZSTD_FRAMEHEADERSIZE_MAX, "epilogue of an empty frame also carries the frame header");
            if (cks) VCHECKM(MEM_readLE32(dst + r - 4) == (U32)g_digest, "checksum field is the low 32 bits of the digest");
            if (blk) VCHECKM(dst[r - tail - 3] == 1 && dst[r - tail - 2] == 0 && dst[r - tail - 1] == 0, "the closing block is an empty raw block with the last-block bit");
            VWITNESS(st0 == ZSTDcs_init && cks);
            VWITNESS(st0 == ZSTDcs_ending && !cks && r == 0);
        } else {
            VWITNESS(st0 == ZSTDcs_ongoing && cap == 6 && cks);      /* 3 + 4 > 6 */
        }
    }
    VWITNESS(which == 0 && ZSTD_isError(r));
    VWITNESS(which == 3 && ZSTD_isError(r));
}
