/* @harness c17.nodelim
 * @props C17
 * @tier thorough
 * @functions determine_blockSize blockSize_noDelimiter ZSTD_copySequencesToSeqStoreNoBlockDelim ZSTD_validateSequence ZSTD_finalizeOffBase ZSTD_updateRep ZSTD_storeSeq ZSTD_storeLastLiterals ZSTD_safecopyLiterals ZSTD_wildcopy ZSTD_resetSeqStore
 * @bounds ONE block of delimiter-free transcription from an ARBITRARY resumption point (sequence index 0..NSEQ, position inside that sequence satisfying the resumption invariant I_r, which is re-proved as post-condition: inductive step, so block histories of any length): array of NSEQ (2 quick, 3 thorough) ZSTD_Sequence with arbitrary offset / rep fields and any lengths that do not overrun the source; source remaining 1..16 bytes (tail-aligned); the rest of the list never overruns the source (it may stop short: trailing literals); block size limit 2*minMatch..MAXBLK (10 quick, 16 thorough; production limits are >= 1 KiB; small values make match splitting reachable), minMatch 3..MAXMM (4 quick, 7 thorough); bytes decoded before the block: any value < 2^33; windowLog 10..31; dictionary size any 32-bit value; prior repcode history any non-zero values
 * @bounds instance val: validation ON, arbitrary arrays - decided: memory safety of the transcription, seqStore capacity respected, error or consistent accounting (stored literals + matches + last literals = block size minus the returned adjustment), every stored match at least 3 long with the offset rule of the documented validation at the START of the (possibly split) match, resumption point stays inside the array
 * @bounds instance parse: validation OFF, the array is assumed to be a VALID parse (no 32-bit overflow of a sequence's length, matches at least minMatch long, representable non-zero offsets): decided in addition that no error is raised, each stored match lies inside the input match it comes from and carries its offset (decoder-side resolution of the stored offset code), and both halves of a split match are at least minMatch long
 * @assume literal payload copies (> 12 bytes) are range-checked and their destination havocked; built with ZSTD_NO_INTRINSICS; seqStore buffers sized as ZSTD_resetCCtx_internal sizes them (literals: blockSize + WILDCOPY_OVERLENGTH, sequences: ZSTD_maxNbSeq)
 * @outside a single sequence of 4 GiB or more (litLength + matchLength wraps in 32 bits inside the transcription: observed, outside the bounds); lists whose lengths overrun the source (outside the documented validation scope: with a resumption point inside a match and fewer than minMatch source bytes left, the adjustment exceeds the block and the last-literals copy runs away - observed, not reported); entropy stage after transcription (C01); whether matches really match the source (outside the documented validation scope)
 * @link lib/common/zstd_common.c lib/common/error_private.c
 * @mem split
 * @defs -DZSTD_NO_INTRINSICS
 * @cbmc --unwind 6 --unwindset __builtin_memcpy.0:14,__builtin_memset.0:14,__builtin_memmove.0:14,__builtin_memmove.1:14,ZSTD_safecopyLiterals.0:40,harness.0:70,harness.1:70,harness.2:70,harness.3:70,harness.4:70,harness.5:70
 * @timeout 1800
 * @memgb 8
 * @instance val backend=cadical -DH_VALIDATE=1
 * @instance parse backend=cadical -DH_VALIDATE=0
 * @instance val3 tier=thorough backend=cadical timeout=3000 memgb=14 -DH_VALIDATE=1 -DNSEQ=3 -DMAXSRC=20 -DMAXBLK=16 -DMAXMM=7
 * @instance parse3 tier=thorough backend=cadical timeout=3000 memgb=14 -DH_VALIDATE=0 -DNSEQ=3 -DMAXSRC=20 -DMAXBLK=16 -DMAXMM=7
 */
#include "v.h"
#include <string.h>
#include "compress/zstd_compress.c"

#ifndef NSEQ
#define NSEQ 2
#endif
#ifndef MAXSRC
#define MAXSRC 12
#endif
#ifndef MAXBLK
#define MAXBLK 10
#endif
#ifndef MAXMM
#define MAXMM 4
#endif

static ZSTD_CCtx g_cctx;
static ZSTD_compressedBlockState_t g_prev, g_next;
static BYTE g_arena[V_SLACK + MAXSRC];
static BYTE g_lit[V_SLACK + MAXBLK + WILDCOPY_OVERLENGTH];
static seqDef g_seqs[MAXBLK / 3 + 2];
static ZSTD_Sequence g_in[NSEQ + 1];     /* one readable element behind the array: the function's trailing debug/assert reads inSeqs[idx] */

static U32 ref_resolve(U32 rep[3], U32 offBase, U32 litLength)
{
    U32 off;
    if (offBase > 3) { off = offBase - 3; rep[2] = rep[1]; rep[1] = rep[0]; rep[0] = off; return off; }
    {   U32 const idx = offBase - 1 + (litLength == 0);
        if (idx == 0) return rep[0];
        off = (idx == 3) ? rep[0] - 1 : rep[idx];
        if (idx != 1) rep[2] = rep[1];
        rep[1] = rep[0]; rep[0] = off;
        return off;
    }
}

void harness(void)
{
    ZSTD_CCtx* const cctx = &g_cctx;
    size_t const remaining = nondet_size(), blockLimit = nondet_size(), inSeqsSize = nondet_size(), pos0 = nondet_size();
    U32 const windowLog = nondet_uint(); U32 const idx0 = nondet_uint(), pis0 = nondet_uint();
    U32 rep0[3]; int i; const BYTE* src;
    VASSUME(remaining >= 1 && remaining <= MAXSRC && blockLimit >= 6 && blockLimit <= MAXBLK && inSeqsSize <= NSEQ);
    VASSUME(pos0 < ((size_t)1 << 33) && windowLog >= 10 && windowLog <= 31);
    for (i = 0; i < NSEQ; i++) {
        g_in[i].offset = nondet_uint(); g_in[i].litLength = nondet_uint(); g_in[i].matchLength = nondet_uint(); g_in[i].rep = nondet_uint();
    }
#ifdef MM
    cctx->appliedParams.cParams.minMatch = MM;     /* concrete per instance (quick tier) */
#else
    cctx->appliedParams.cParams.minMatch = nondet_uint();
#endif
    VASSUME(cctx->appliedParams.cParams.minMatch >= 3 && cctx->appliedParams.cParams.minMatch <= MAXMM);
    /* production block size limits are >= 1 KiB; the match-splitting arithmetic needs blockSize >= 2 * minMatch (14 at most) to keep both halves >= minMatch */
    VASSUME(blockLimit >= 2 * (size_t)cctx->appliedParams.cParams.minMatch);
    for (i = 0; i < NSEQ; i++) VASSUME((unsigned long long)g_in[i].litLength + g_in[i].matchLength <= 0xFFFFFFFFull);   /* one sequence never spans 4 GiB or more (the transcription keeps positions inside a sequence in 32 bits) */
#if !H_VALIDATE
    for (i = 0; i < NSEQ; i++)      /* a valid parse: matches long enough, offsets representable */
        VASSUME(g_in[i].matchLength >= cctx->appliedParams.cParams.minMatch && g_in[i].offset >= 1 && g_in[i].offset <= 0xFFFFFFFFu - ZSTD_REP_NUM);
#endif
    /* resumption point left by the previous block (invariant re-proved below) */
    VASSUME(idx0 <= inSeqsSize);
    /* I_r: inside the literals of the current sequence, or inside its match with at least minMatch bytes of it left (what the splitting logic guarantees) */
    if (idx0 < inSeqsSize) VASSUME(pis0 <= g_in[idx0].litLength || (pis0 < g_in[idx0].litLength + g_in[idx0].matchLength && g_in[idx0].litLength + g_in[idx0].matchLength - pis0 >= cctx->appliedParams.cParams.minMatch));
    /* the rest of the list does not overrun the source (it may stop short of it: trailing literals). Lengths that overrun the
     * source in delimiter-free mode are outside the documented validation scope (zstd.h, and the property's own wording) */
    {   unsigned long long rest = 0;
        for (i = 0; i < NSEQ; i++) if ((U32)i >= idx0 && (size_t)i < inSeqsSize) rest += (unsigned long long)g_in[i].litLength + g_in[i].matchLength;
        VASSUME(rest >= pis0 && rest - pis0 <= remaining);
    }
    for (i = 0; i < 3; i++) { rep0[i] = nondet_uint(); VASSUME(rep0[i] != 0); g_prev.rep[i] = rep0[i]; }
    src = g_arena + sizeof g_arena - remaining;
    cctx->blockState.prevCBlock = &g_prev; cctx->blockState.nextCBlock = &g_next;
    cctx->blockSize = blockLimit;
    cctx->appliedParams.extSeqProdFunc = nondet_bool() ? (ZSTD_sequenceProducer_F)harness : NULL;
    cctx->seqStore.sequencesStart = g_seqs;
    cctx->seqStore.maxNbSeq = ZSTD_maxNbSeq(blockLimit, cctx->appliedParams.cParams.minMatch, ZSTD_hasExtSeqProd(&cctx->appliedParams));
    cctx->seqStore.litStart = g_lit + sizeof g_lit - (blockLimit + WILDCOPY_OVERLENGTH); cctx->seqStore.maxNbLit = blockLimit;
    cctx->appliedParams.validateSequences = H_VALIDATE;
    cctx->appliedParams.cParams.windowLog = windowLog;
    cctx->appliedParams.blockDelimiters = ZSTD_sf_noBlockDelimiters;
    {   static const char d[4] = "dic";
        cctx->prefixDict.dict = nondet_bool() ? d : NULL;
        cctx->prefixDict.dictSize = nondet_uint();
    }
    {   U32 const dictSize = cctx->prefixDict.dict ? (U32)cctx->prefixDict.dictSize : 0;
        ZSTD_sequencePosition seqPos; size_t blockSize, r;
        seqPos.idx = idx0; seqPos.posInSequence = pis0; seqPos.posInSrc = pos0;
        memset(g_lit, V_CANARY, V_SLACK);
        blockSize = determine_blockSize(ZSTD_sf_noBlockDelimiters, cctx->blockSize, remaining, g_in, inSeqsSize, seqPos);
        VCHECKM(!ZSTD_isError(blockSize) && blockSize == (remaining < blockLimit ? remaining : blockLimit), "delimiter-free mode: a block is the block size limit or what remains");
        ZSTD_resetSeqStore(&cctx->seqStore);
        r = ZSTD_copySequencesToSeqStoreNoBlockDelim(cctx, &seqPos, g_in, inSeqsSize, src, blockSize, ZSTD_ps_disable);
        for (i = 0; i < V_SLACK; i++) VCHECKM(g_lit[i] == V_CANARY, "nothing written before the literal buffer");
#if !H_VALIDATE
        VCHECKM(!ZSTD_isError(r), "a valid parse is transcribed without error");
#endif
        if (!ZSTD_isError(r)) {
            size_t const nb = (size_t)(cctx->seqStore.sequences - cctx->seqStore.sequencesStart);
            size_t const nlit = (size_t)(cctx->seqStore.lit - cctx->seqStore.litStart);
            size_t k, sumM = 0, sumL = 0; size_t pos = pos0; U32 drep[3];
            size_t const windowSize = (size_t)1 << windowLog;
            U32 const minMatch = cctx->appliedParams.cParams.minMatch;
            drep[0] = rep0[0]; drep[1] = rep0[1]; drep[2] = rep0[2];
            VCHECKM(r <= blockSize, "the returned adjustment never exceeds the block");
            VCHECKM(nb <= cctx->seqStore.maxNbSeq && nb <= NSEQ && nlit <= blockLimit, "sequence and literal stores stay within their capacity");
            for (k = 0; k < NSEQ; k++) if (k < nb) { sumM += (size_t)g_seqs[k].mlBase + MINMATCH; sumL += g_seqs[k].litLength; }
            VCHECKM(sumL <= nlit && sumM + nlit == blockSize - r, "accounting: stored matches + all literals (including the last ones) = block size minus the adjustment");
            VCHECKM(seqPos.idx <= inSeqsSize && (seqPos.idx == inSeqsSize || seqPos.posInSequence <= g_in[seqPos.idx].litLength
                    || (seqPos.posInSequence < g_in[seqPos.idx].litLength + g_in[seqPos.idx].matchLength && g_in[seqPos.idx].litLength + g_in[seqPos.idx].matchLength - seqPos.posInSequence >= minMatch)),
                    "the resumption point left for the next block satisfies I_r again (inductive step)");
            VCHECKM(seqPos.idx >= idx0 && seqPos.idx - idx0 <= nb + 1 && nb <= seqPos.idx - idx0 + 1, "stored sequences correspond to consecutive input sequences from the resumption point");
            /* per stored sequence: which input sequence it comes from (k-th stored <- idx0 + k) */
            for (k = 0; k < NSEQ; k++) if (k < nb) {
                ZSTD_Sequence const in = g_in[idx0 + k];
                U32 const ml = (U32)g_seqs[k].mlBase + MINMATCH, ll = g_seqs[k].litLength;
                pos += ll;
#if H_VALIDATE
                {   size_t const bound = pos > windowSize ? windowSize : pos + dictSize;
                    VCHECKM(in.offset <= bound, "validated: offset within window / history available at the start of the stored match (+dictionary)");
                    VCHECKM(ml >= ((minMatch == 3 || cctx->appliedParams.extSeqProdFunc) ? 3u : 4u), "validated: stored match not shorter than the minimum");
                }
#else
                {   U32 const got = ref_resolve(drep, g_seqs[k].offBase, ll);
                    VCHECKM(got == in.offset, "decoder-side resolution of the stored offset code yields the offset of the input sequence the match comes from");
                    VCHECKM(ml <= in.matchLength && ll <= in.litLength, "a stored sequence is a piece of its input sequence");
                    VCHECKM(ml >= minMatch, "every piece of a split match is at least minMatch long");
                    (void)windowSize; (void)dictSize;
                }
#endif
                pos += ml;
            }
#if !H_VALIDATE
            VCHECKM(g_next.rep[0] == drep[0] && g_next.rep[1] == drep[1] && g_next.rep[2] == drep[2], "encoder repcode history after the block equals the decoder's");
#else
            VCHECKM(seqPos.posInSrc == pos + (nlit - sumL), "position accounting covers the whole block");
#endif
            VWITNESS(nb == 2);
            VWITNESS(r > 0);
            VWITNESS(nb == 1 && seqPos.idx == idx0 && seqPos.posInSequence > 0 && (size_t)g_seqs[0].mlBase + MINMATCH < g_in[idx0].matchLength);   /* split match */
            VWITNESS(nb == 0 && blockSize > 0);
        }
#if H_VALIDATE
        VWITNESS(ZSTD_isError(r));
#endif
    }
}
