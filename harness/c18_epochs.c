/* @harness c18.epochs
 * @props C18
 * @tier quick
 * @functions COVER_computeEpochs
 * @bounds FULL 32-bit domain of every argument the trainers can pass: dictionary capacity any U32, number of d-mers any value >= 1 (what COVER_ctx_init / FASTCOVER_ctx_init guarantee), segment size k any value >= 1 (COVER_checkParameters), passes = 4 (the only value used by COVER_buildDictionary / FASTCOVER_buildDictionary)
 * @bounds decided: no division by zero, at least one epoch, the epochs tile at most the d-mers that exist (size * num <= nbDmers without 32-bit wrap, so every epoch range the segment selector is given lies inside the sample data), epochs are never empty (also where k * 10 wraps in 32 bits); decided on cvc5 with the bit-vector-to-integer translation (three 32-bit divisions: SAT back ends and plain cvc5/z3 give no verdict in 10 min)
 * @assume none
 * @outside segment selection inside an epoch (COVER_selectSegment / FASTCOVER_selectSegment); NARROW CLAIM as for all of C18
 * @prep extract lib/dictBuilder/cover.c COVER_computeEpochs epochs.inc
 * @link lib/common/error_private.c
 * @backend cvc5int
 * @mem native
 * @cbmc --unwind 2
 * @timeout 200
 * @memgb 4
 */
#include "v.h"
#include "dictBuilder/cover.h"
/* the function is self-contained; its definition is taken from the real cover.c by textual extraction below */
#include "common/mem.h"
#ifndef MAX
#define MAX(a,b) ((a)>(b)?(a):(b))
#endif
#ifndef MIN
#define MIN(a,b) ((a)<(b)?(a):(b))
#endif
#include "epochs.inc"

void harness(void)
{
    U32 const maxDictSize = nondet_uint(), nbDmers = nondet_uint(), k = nondet_uint();
    COVER_epoch_info_t e;
    VASSUME(nbDmers >= 1 && k >= 1);
    e = COVER_computeEpochs(maxDictSize, nbDmers, k, 4);
    VCHECKM(e.num >= 1, "at least one epoch");
    VCHECKM((unsigned long long)e.num * e.size <= nbDmers, "the epochs tile at most the d-mers that exist (no 32-bit wrap): every epoch lies inside the samples");
    VCHECKM(e.size >= 1, "epochs are non-empty");
    VWITNESS(e.num > 1 && e.size >= k * 10);
    VWITNESS(e.size == nbDmers && e.num == 1);
}
