/* @harness c05.single_block
 * @props C05 C06 C01
 * @tier quick
 * @functions ZSTD_compressSeqStore_singleBlock writeBlockHeader ZSTD_isRLE ZSTD_count ZSTD_noCompressBlock ZSTD_rleCompressBlock ZSTD_blockState_confirmRepcodesAndEntropyTables ZSTD_getcBlockSize
 * @bounds one partition / block emitted by the block splitter's per-partition compressor: source 1..40 arbitrary bytes (tail-aligned: the word-wise run detector must not read past it), destination capacity 0..48 (tail slice), last-block flag any, first-block flag any, the entropy stage's result ANY value it may return (error, 0 = not compressible, or any size up to the room it was given); simulated decoder repcode history any values
 * @bounds decided: error or a well-formed block as read back by the decoder's ZSTD_getcBlockSize - raw block carrying the source bytes when the entropy stage gives up, RLE block (regenerated size = source size, the repeated byte) exactly when the source is one repeated byte, the entropy result is small and this is not the frame's first block, compressed block with the entropy stage's size otherwise; last-block bit as asked; total size within the capacity; after a raw or RLE block the simulated decoder repcode history is restored (the decoder does not see the block's sequences), after a compressed block the block state is confirmed (prev/next swapped)
 * @assume ZSTD_entropyCompressSeqStore is a contract stub (range-checked; definition line renamed in a scratch copy of zstd_compress.c); empty sequence store (repcode resolution over sequences is c01.rep_lockstep's subject)
 * @outside entropy coding itself; sequence collection mode
 * @prep rename lib/compress/zstd_compress.c ZSTD_entropyCompressSeqStore ZSTD_entropyCompressSeqStore_REAL zc_sb.c
 * @prep extract lib/decompress/zstd_decompress_block.c ZSTD_getcBlockSize blksb.inc
 * @link lib/common/zstd_common.c lib/common/error_private.c
 * @backend cadical
 * @mem loop
 * @cbmc --unwind 6 --unwindset __builtin_memcpy.0:42,__builtin_memset.0:42,harness.0:110,harness.1:5,harness.2:42,ZSTD_count.0:6,ZSTD_isRLE.0:6,ZSTD_isRLE.1:4
 * @timeout 600
 * @memgb 8
 */
#include "v.h"
#include <string.h>
#include "compress/zstd_compress_internal.h"
size_t ZSTD_entropyCompressSeqStore(const seqStore_t* seqStorePtr, const ZSTD_entropyCTables_t* prevEntropy, ZSTD_entropyCTables_t* nextEntropy,
                                    const ZSTD_CCtx_params* cctxParams, void* dst, size_t dstCapacity, size_t srcSize, void* entropyWorkspace, size_t entropyWkspSize, int bmi2);
#include "zc_sb.c"
#include "decompress/zstd_decompress_block.h"
#include "blksb.inc"

#define MAXSRC 40
#define MAXCAP 48
static BYTE g_srcArena[V_SLACK + MAXSRC];
static BYTE g_dstArena[V_SLACK + MAXCAP];
static BYTE* g_dst; static size_t g_cap; static size_t g_eRet; static int g_eCalls;
size_t ZSTD_entropyCompressSeqStore(const seqStore_t* seqStorePtr, const ZSTD_entropyCTables_t* prevEntropy, ZSTD_entropyCTables_t* nextEntropy,
                                    const ZSTD_CCtx_params* cctxParams, void* dst, size_t dstCapacity, size_t srcSize, void* entropyWorkspace, size_t entropyWkspSize, int bmi2)
{
    size_t const r = nondet_size();
    (void)seqStorePtr; (void)prevEntropy; (void)nextEntropy; (void)cctxParams; (void)srcSize; (void)entropyWorkspace; (void)entropyWkspSize; (void)bmi2;
    g_eCalls++;
    VCHECKM((BYTE*)dst == g_dst + 3 && dstCapacity == g_cap - 3, "the entropy stage writes right after the 3-byte block header, with the remaining room");
    if (nondet_bool()) { g_eRet = (size_t)-1; return ERROR(dstSize_tooSmall); }
    VASSUME(r <= dstCapacity && r <= ZSTD_BLOCKSIZE_MAX);
    g_eRet = r; return r;
}

static ZSTD_CCtx g_cctx; static ZSTD_compressedBlockState_t g_bsA, g_bsB; static seqStore_t g_ss; static seqDef g_seqs[1];

void harness(void)
{
    ZSTD_CCtx* const zc = &g_cctx; size_t const srcSize = nondet_size(), cap = nondet_size(); U32 const last = nondet_bool(), isPartition = nondet_bool();
    const BYTE* src; repcodes_t dRep, cRep, dRep0; size_t r; unsigned i; int allSame = 1;
    VASSUME(srcSize >= 1 && srcSize <= MAXSRC && cap <= MAXCAP);
    for (i = 0; i < V_SLACK + MAXSRC; i++) g_srcArena[i] = nondet_uchar();
    src = g_srcArena + sizeof g_srcArena - srcSize;
    g_dst = g_dstArena + sizeof g_dstArena - cap; g_cap = cap;
    for (i = 0; i < 3; i++) { dRep.rep[i] = nondet_uint(); cRep.rep[i] = nondet_uint(); }
    dRep0 = dRep;
    g_ss.sequencesStart = g_seqs; g_ss.sequences = g_seqs;            /* no sequences: repcode resolution is a no-op here */
    zc->blockState.prevCBlock = &g_bsA; zc->blockState.nextCBlock = &g_bsB;
    zc->isFirstBlock = nondet_bool(); zc->seqCollector.collectSequences = 0;
    {   unsigned const m = nondet_uint(); VASSUME(m <= FSE_repeat_valid); g_bsA.entropy.fse.offcode_repeatMode = (FSE_repeat)m; }
    for (i = 1; i < MAXSRC; i++) if (i < srcSize && src[i] != src[0]) allSame = 0;

    r = ZSTD_compressSeqStore_singleBlock(zc, &g_ss, &dRep, &cRep, g_dst, cap, src, srcSize, last, isPartition);

    if (cap < 3) VCHECKM(ZSTD_isError(r) && g_eCalls == 0, "no room for a block header: refused before the entropy stage runs");
    if (!ZSTD_isError(r)) {
        blockProperties_t bp; size_t const c = ZSTD_getcBlockSize(g_dst, r, &bp); size_t const k = nondet_size();
        int const rle = (!zc->isFirstBlock && g_eRet < 25 && allSame) || g_eRet == 1;
        VCHECKM(r <= cap && r >= 3 && !ZSTD_isError(c) && bp.lastBlock == last, "a block within the capacity, with the requested last-block bit");
        if (rle) {
            VCHECKM(bp.blockType == bt_rle && bp.origSize == srcSize && r == 4 && g_dst[3] == src[0], "RLE block: regenerated size is the source size, payload the repeated byte");
            if (g_eRet != 1) VCHECKM(allSame, "a block is turned into RLE only if the source really is one repeated byte");
        } else if (g_eRet == 0) {
            VCHECKM(bp.blockType == bt_raw && bp.origSize == srcSize && r == 3 + srcSize, "raw block of the source size when the entropy stage gives up");
            VASSUME(k < srcSize); VCHECKM(g_dst[3 + k] == src[k], "raw block payload equals the source");
        } else {
            VCHECKM(bp.blockType == bt_compressed && c == g_eRet && r == 3 + g_eRet, "compressed block header carries the entropy stage's size");
        }
        if (rle || g_eRet == 0) VCHECKM(dRep.rep[0] == dRep0.rep[0] && dRep.rep[1] == dRep0.rep[1] && dRep.rep[2] == dRep0.rep[2] && zc->blockState.prevCBlock == &g_bsA, "raw / RLE block: simulated decoder repcodes restored, block state not confirmed");
        else VCHECKM(zc->blockState.prevCBlock == &g_bsB && zc->blockState.nextCBlock == &g_bsA, "compressed block: block state confirmed (previous and next swapped)");
        VCHECKM(zc->blockState.prevCBlock->entropy.fse.offcode_repeatMode != FSE_repeat_valid, "offset-code table is never left 'valid without check' across partitions");
        VWITNESS(rle && g_eRet > 1 && srcSize == MAXSRC);
        VWITNESS(!rle && g_eRet == 0 && srcSize == 33);
        VWITNESS(!rle && g_eRet > 1 && allSame);          /* first block: no RLE */
    } else {
        VWITNESS(g_eRet == 0 && cap >= 3);     /* raw block did not fit */
    }
}
