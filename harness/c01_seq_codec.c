/* @harness c01.seq_codec
 * @props C01 C04 C05
 * @tier quick
 * @functions ZSTD_seqToCodes ZSTD_LLcode ZSTD_MLcode FSE_buildCTable_wksp ZSTD_encodeSequences BIT_initCStream BIT_addBits BIT_flushBits BIT_closeCStream BIT_initDStream ZSTD_initFseState ZSTD_decodeSequence BIT_reloadDStream BIT_endOfDStream
 * @bounds K = 1 sequence (K = 2 gave no verdict within 40 min and is not registered) with EVERY field arbitrary: literal length and match length over their full 16-bit store range, offset code 1..2^29-1 (everything the predefined offset table can carry), encoded with the three predefined distributions and decoded with the decoder's hard-coded default tables
 * @assume output buffer 64 bytes inside an arena with 64 bytes of front slack (the bit reader compares pointers slightly before the start of its buffer)
 * @outside long-length markers (> 65535), compressed / RLE table modes (c01.seq_section, thorough), offsets >= 2^29 (long-offset path of 32-bit builds)
 * @prep extract lib/compress/zstd_compress.c ZSTD_seqToCodes seq_to_codes.inc
 * @link lib/common/zstd_common.c lib/common/error_private.c lib/common/fse_decompress.c lib/common/entropy_common.c lib/compress/fse_compress.c lib/compress/zstd_compress_sequences.c lib/compress/hist.c
 * @mem native
 * @cbmc --unwind 70 --object-bits 11
 * @timeout 600
 * @memgb 8
 * @instance k1 -DK=1
 */
#include "v.h"
#include <string.h>
#include "decompress/zstd_decompress_block.c"
#include "compress/zstd_compress_sequences.h"
#include "compress/zstd_compress_internal.h"
#include "seq_to_codes.inc"

void harness(void)
{
    static seqDef seqs[K]; static BYTE ll[K], ml[K], of[K];
    seqStore_t ss; size_t const nbSeq = K; int i; int longOffsets;
    static FSE_CTable ctLL[FSE_CTABLE_SIZE_U32(LLFSELog, MaxLL)], ctML[FSE_CTABLE_SIZE_U32(MLFSELog, MaxML)], ctOF[FSE_CTABLE_SIZE_U32(OffFSELog, MaxOff)];
    static U32 wksp[2000]; static BYTE arena[V_SLACK + 64];
    BYTE* const out = arena + V_SLACK; size_t e, sz;
    memset(&ss, 0, sizeof ss);
    for (i = 0; i < K; i++) { seqs[i].offBase = nondet_uint(); seqs[i].litLength = nondet_ushort(); seqs[i].mlBase = nondet_ushort(); VASSUME(seqs[i].offBase >= 1 && seqs[i].offBase < (1u << 29)); }
    ss.sequencesStart = seqs; ss.sequences = seqs + nbSeq; ss.llCode = ll; ss.mlCode = ml; ss.ofCode = of; ss.longLengthType = ZSTD_llt_none;
    longOffsets = ZSTD_seqToCodes(&ss);
    e = FSE_buildCTable_wksp(ctLL, LL_defaultNorm, MaxLL, LL_defaultNormLog, wksp, sizeof wksp); VCHECK(!ERR_isError(e));
    e = FSE_buildCTable_wksp(ctML, ML_defaultNorm, MaxML, ML_defaultNormLog, wksp, sizeof wksp); VCHECK(!ERR_isError(e));
    e = FSE_buildCTable_wksp(ctOF, OF_defaultNorm, DefaultMaxOff, OF_defaultNormLog, wksp, sizeof wksp); VCHECK(!ERR_isError(e));
    sz = ZSTD_encodeSequences(out, 64, ctML, ml, ctOF, of, ctLL, ll, seqs, nbSeq, longOffsets, 0);
    VCHECKM(!ERR_isError(sz) && sz >= 1 && sz <= 64, "sequences encode into the given room");
    {   seqState_t st; size_t r;
        st.prevOffset[0] = 1; st.prevOffset[1] = 4; st.prevOffset[2] = 8;
        r = BIT_initDStream(&st.DStream, out, sz); VCHECKM(!ERR_isError(r), "the emitted bitstream has a valid end mark");
        ZSTD_initFseState(&st.stateLL, &st.DStream, LL_defaultDTable);
        ZSTD_initFseState(&st.stateOffb, &st.DStream, OF_defaultDTable);
        ZSTD_initFseState(&st.stateML, &st.DStream, ML_defaultDTable);
        for (i = 0; i < K; i++) {
            seq_t const s = ZSTD_decodeSequence(&st, ZSTD_lo_isRegularOffset, i == K - 1);
            VCHECKM(s.litLength == seqs[i].litLength, "decoded literal length equals the stored one");
            VCHECKM(s.matchLength == (size_t)seqs[i].mlBase + MINMATCH, "decoded match length equals the stored one");
            if (seqs[i].offBase > 3) VCHECKM(s.offset == seqs[i].offBase - 3, "decoded offset equals the stored one");
        }
        VCHECKM(BIT_endOfDStream(&st.DStream), "the decoder consumes the bitstream exactly");
    }
    VWITNESS(seqs[0].offBase > (1u << 28) && seqs[0].litLength > 60000);
    VWITNESS(sz <= 3);
}
