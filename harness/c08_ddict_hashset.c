/* @harness c08.ddict_hashset
 * @props C08 C03
 * @tier quick
 * @functions ZSTD_DDictHashSet_addDDict ZSTD_DDictHashSet_emplaceDDict ZSTD_DDictHashSet_expand ZSTD_DDictHashSet_getDDict ZSTD_DDictHashSet_getIndex ZSTD_createDDictHashSet ZSTD_freeDDictHashSet
 * @bounds the multiple-dictionary table of the decoder (ZSTD_d_refMultipleDDicts): a table of TS slots (8 quick; 64 = the production base size, through the real constructor, thorough; the code is generic in the power-of-two size), then 2 dictionaries (below the expansion threshold) with ARBITRARY non-zero dictionary IDs (equal or different) added through the real add function (which may expand the table), then a lookup of an ARBITRARY ID; the hash of every ID is ARBITRARY (XXH64 uninterpreted but functional: same ID, same hash), so every collision pattern, including probe sequences that wrap around the end of the table, is covered
 * @bounds decided: memory safety of every probe (no access outside the slot array), termination of the probe loops within the table size, and the lookup contract: the dictionary returned for an ID is the one added last with that ID, and NULL if none was added - so a frame naming another dictionary ID is never decoded with the wrong dictionary
 * @assume XXH64 on the 4-byte ID is an uninterpreted function (arbitrary value per distinct ID); the allocator is a harness pool (each table is the tail slice of a fresh zero-initialised array, which is what calloc guarantees; the zeroing memset is range-checked only), allocation succeeds
 * @outside table expansion (ZSTD_DDictHashSet_expand: the 3-dictionary scenario that reaches it ran out of 14 GB and is not registered); allocation failure (C13); more than 2 dictionaries
 * @assume the hash-set section of zstd_decompress.c (from its banner comment to the next banner) is cut out textually into a scratch file at every run (two regexes that must match), and compiled against a 4-byte model of the opaque ZSTD_DDict (only its dictionary ID is read)
 * @prep sed lib/decompress/zstd_decompress.c hs1.c \A.*?Multiple\s+DDicts\s+Hashset\s+internals\s+\x2a /\x2a
 * @prep sed hs1.c hashset.inc /\x2a-\x2a+\s*\n\x2a\s+Context\s+management.*\Z typedef\x20int\x20v_cut_t;
 * @link lib/common/zstd_common.c lib/common/error_private.c
 * @mem check
 * @cbmc --unwind 10
 * @timeout 600
 * @memgb 8
 * @instance ts8 -DTS=8 -DNINS=2
 * @instance ts64 tier=thorough timeout=2400 memgb=14 cbmc="--unwind 70" -DTS=64
 */
#include "v.h"
#include <string.h>
#include <stdlib.h>
#include "common/allocations.h"
#include "decompress/zstd_decompress_internal.h"
struct ZSTD_DDict_s { U32 dictID; };          /* model of the opaque dictionary object: only the ID is read by the table */
unsigned ZSTD_getDictID_fromDDict(const ZSTD_DDict* ddict) { if (ddict == NULL) return 0; return ddict->dictID; }
#include "hashset.inc"

#ifndef TS
#define TS 4
#endif
#ifndef NINS
#define NINS 2
#endif
static U32 g_ids[NINS + 1]; static U64 g_h[NINS + 1]; static int g_nIds;
/* uninterpreted, functional hash of a 4-byte dictionary ID */
XXH64_hash_t XXH64(const void* input, size_t len, XXH64_hash_t seed)
{
    U32 id; int i; (void)seed; (void)len;
    memcpy(&id, input, 4);
    for (i = 0; i < NINS + 1; i++) if (i < g_nIds && g_ids[i] == id) return g_h[i];
    if (g_nIds < NINS + 1) { g_ids[g_nIds] = id; g_h[g_nIds] = nondet_u64(); return g_h[g_nIds++]; }
    return nondet_u64();
}

static ZSTD_DDict g_dd[NINS];
/* allocator: fixed-size pools, each request served as the TAIL slice of the next pool (one slot too many leaves the object);
 * symbolic-size heap objects blow up the encoding */
#if TS < 64
#define POOLSLOTS 64
#else
#define POOLSLOTS (4 * TS)
#endif
static const ZSTD_DDict* g_pool0[POOLSLOTS]; static const ZSTD_DDict* g_pool1[POOLSLOTS]; static const ZSTD_DDict* g_pool2[POOLSLOTS]; static const ZSTD_DDict* g_pool3[POOLSLOTS];   /* four distinct objects */
static ZSTD_DDictHashSet g_hsObj; static int g_nalloc, g_nfree;
static void* h_alloc(void* opaque, size_t size)
{
    (void)opaque;
    if (size == sizeof(ZSTD_DDictHashSet)) return &g_hsObj;
    VCHECKM(size % sizeof(void*) == 0 && size / sizeof(void*) <= POOLSLOTS && g_nalloc < 4, "table allocations are whole slot arrays within the harness pools");
    if (!(size % sizeof(void*) == 0 && size / sizeof(void*) <= POOLSLOTS && g_nalloc < 4)) return NULL;
    {   const ZSTD_DDict** const pool = g_nalloc == 0 ? g_pool0 : g_nalloc == 1 ? g_pool1 : g_nalloc == 2 ? g_pool2 : g_pool3;
        g_nalloc++;
        return (void*)(pool + (POOLSLOTS - size / sizeof(void*)));
    }
}
static void h_free(void* opaque, void* p) { (void)opaque; if (p && p != (void*)&g_hsObj) g_nfree++; }

void harness(void)
{
    ZSTD_customMem const cm = { h_alloc, h_free, NULL }; ZSTD_DDictHashSet* hs; int i; U32 const q = nondet_uint(); const ZSTD_DDict* got; const ZSTD_DDict* expect = NULL;
#if TS == DDICT_HASHSET_TABLE_BASE_SIZE
    hs = ZSTD_createDDictHashSet(cm);
    VASSUME(hs != NULL);
#else
    /* same shape as the constructor makes, with fewer slots (pools are zero-initialised and never reused, as calloc guarantees) */
    hs = &g_hsObj; hs->ddictPtrTable = (const ZSTD_DDict**)h_alloc(NULL, TS * sizeof(ZSTD_DDict*)); hs->ddictPtrTableSize = TS; hs->ddictPtrCount = 0;
#endif
    for (i = 0; i < NINS; i++) {
        size_t r;
        g_dd[i].dictID = nondet_uint(); VASSUME(g_dd[i].dictID != 0);
        r = ZSTD_DDictHashSet_addDDict(hs, &g_dd[i], cm);
        VCHECKM(!ZSTD_isError(r), "adding a dictionary succeeds while memory is available");
        VCHECKM(hs->ddictPtrCount <= hs->ddictPtrTableSize && hs->ddictPtrCount <= (size_t)(i + 1), "the table never counts more entries than were added");
        if (g_dd[i].dictID == q) expect = &g_dd[i];
    }
    VASSUME(q != 0);
    got = ZSTD_DDictHashSet_getDDict(hs, q);
    VCHECKM(got == expect, "lookup returns the dictionary added last with that ID, and none for an ID that was never added");
#if NINS >= 3
    VWITNESS(hs->ddictPtrTableSize > TS);
#endif
    VWITNESS(got != NULL && g_dd[0].dictID == g_dd[NINS - 1].dictID);
    VWITNESS(got == NULL && (g_h[0] & (TS - 1)) == (TS - 1) && (g_h[1] & (TS - 1)) == (TS - 1) && g_dd[0].dictID != g_dd[1].dictID);
    ZSTD_freeDDictHashSet(hs, cm);
}
