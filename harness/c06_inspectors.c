/* @harness c06.inspectors
 * @props C06 C09 C03
 * @tier quick
 * @functions ZSTD_findFrameSizeInfo ZSTD_findFrameCompressedSize ZSTD_decompressBound ZSTD_getFrameHeader_advanced ZSTD_getcBlockSize readSkippableFrameSize ZSTD_getFrameContentSize
 * @bounds input: NB (= 15) arbitrary bytes after an arbitrary choice of standard / skippable magic, srcSize every value 0..NB (tail-aligned: any over-read leaves the object); frames of at most 3 blocks fit
 * @assume reference frame walk written in the harness from doc/zstd_compression_format.md (frame header descriptor, window descriptor, block headers, checksum)
 * @outside legacy frames; frames longer than NB bytes; content of compressed blocks (their regenerated size is only bounded by the block size limit)
 * @prep extract lib/decompress/zstd_decompress_block.c ZSTD_getcBlockSize blk2.inc
 * @link lib/common/zstd_common.c lib/common/error_private.c lib/decompress/zstd_ddict.c
 * @mem loop
 * @cbmc --unwind 6 --unwindset __builtin_memset.0:50,__builtin_memcpy.0:20,harness.0:20,ref_walk.0:10,ref_walk.1:6
 * @timeout 300
 * @memgb 4
 */
#include "v.h"
#include <string.h>
#include "decompress/zstd_decompress.c"
#include "blk2.inc"
size_t ZSTD_decompressBlock_internal(ZSTD_DCtx* dctx, void* dst, size_t dstCapacity, const void* src, size_t srcSize, const streaming_operation streaming)
{ (void)dctx; (void)dst; (void)dstCapacity; (void)src; (void)srcSize; (void)streaming; return ERROR(GENERIC); }
void ZSTD_checkContinuity(ZSTD_DCtx* dctx, const void* dst, size_t dstSize) { (void)dctx; (void)dst; (void)dstSize; }

#define NB 15
static BYTE g_arena[V_SLACK + NB];

/* reference walk of ONE standard frame, from the format document. returns 0 if the bytes are not a complete frame */
typedef struct { int ok; size_t size; U64 fcs; int hasFcs; U64 blockMax; U64 minRegen; unsigned nbBlocks, nbCompressed; } ref_t;
static ref_t ref_walk(const BYTE* p, size_t n)
{
    ref_t r; size_t pos = 0; unsigned fhd, fcsId, single, dictIdSz; U64 window = 0; int b;
    memset(&r, 0, sizeof r);
    if (n < 5) return r;
    if (!(p[0] == 0x28 && p[1] == 0xB5 && p[2] == 0x2F && p[3] == 0xFD)) return r;
    fhd = p[4]; pos = 5;
    fcsId = fhd >> 6; single = (fhd >> 5) & 1; dictIdSz = fhd & 3; if (dictIdSz == 3) dictIdSz = 4;
    if (fhd & 8) return r;                                     /* reserved bit */
    if (!single) { unsigned wd; if (pos >= n) return r; wd = p[pos++];
        {   unsigned const wlog = 10 + (wd >> 3); if (wlog > 31) return r;       /* this build's window limit */
            window = (U64)1 << wlog; window += (window >> 3) * (wd & 7); } }
    if (pos + dictIdSz > n) return r; pos += dictIdSz;
    {   unsigned const fcsSz = fcsId == 0 ? single : (1u << fcsId);
        unsigned k; U64 v = 0;
        if (pos + fcsSz > n) return r;
        for (k = 0; k < 8; k++) if (k < fcsSz) v |= (U64)p[pos + k] << (8 * k);
        if (fcsId == 1) v += 256;
        r.hasFcs = fcsSz != 0; r.fcs = v; pos += fcsSz;
        if (single) window = v;
    }
    r.blockMax = window < (128 << 10) ? window : (128 << 10);
    for (b = 0; b < 4; b++) {
        U32 h; unsigned type; U32 sz; size_t payload;
        if (pos + 3 > n) return r;
        h = p[pos] | ((U32)p[pos+1] << 8) | ((U32)p[pos+2] << 16); pos += 3;
        type = (h >> 1) & 3; sz = h >> 3;
        if (type == 3) return r;
        payload = (type == 1) ? 1 : sz;
        if (pos + payload > n) return r;
        pos += payload; r.nbBlocks++;
        if (type == 2) r.nbCompressed++; else r.minRegen += (sz < r.blockMax ? sz : r.blockMax);   /* a block announcing more than the block size limit is refused by the decoder: the bound only matters up to it */
        if (h & 1) {
            if (fhd & 4) { if (pos + 4 > n) return r; pos += 4; }
            r.ok = 1; r.size = pos; return r;
        }
    }
    return r;    /* more than 4 blocks cannot fit in NB bytes */
}

void harness(void)
{
    size_t const n = nondet_size(); const BYTE* src; int i;
    VASSUME(n <= NB);
    src = g_arena + sizeof g_arena - n;
    for (i = 0; i < NB; i++) g_arena[V_SLACK + i] = nondet_uchar();
    {   ZSTD_frameSizeInfo const fi = ZSTD_findFrameSizeInfo(src, n, ZSTD_f_zstd1);
        size_t const cs = ZSTD_findFrameCompressedSize(src, n);
        int const isSkippable = n >= 4 && (MEM_readLE32(src) & ZSTD_MAGIC_SKIPPABLE_MASK) == ZSTD_MAGIC_SKIPPABLE_START;
        ref_t const ref = ref_walk(src, n);
        VCHECKM(cs == fi.compressedSize, "public wrapper returns the walker's size");
        if (!ZSTD_isError(fi.compressedSize)) {
            VCHECKM(fi.compressedSize <= n && fi.compressedSize >= 1, "reported frame size lies inside the input");
            if (!isSkippable) {
                VCHECKM(ref.ok, "a frame size is reported only for a complete, well-formed frame (a truncated frame is never sized)");
                VCHECKM(fi.compressedSize == ref.size, "frame compressed size is exactly the number of bytes of the frame");
                if (ref.hasFcs) VCHECKM(fi.decompressedBound == ref.fcs, "with a content-size field the bound is that field");
                else VCHECKM(fi.decompressedBound >= ref.minRegen + (U64)ref.nbCompressed * ref.blockMax, "without a content-size field the bound covers every block, the last one included");
                {   unsigned long long const b = ZSTD_decompressBound(src, fi.compressedSize);
                    VCHECKM(b == fi.decompressedBound, "ZSTD_decompressBound of exactly one frame equals that frame's bound");
                    VCHECKM(ZSTD_getFrameContentSize(src, n) == (ref.hasFcs ? ref.fcs : ZSTD_CONTENTSIZE_UNKNOWN), "content-size query tells what the header says");
                }
                VWITNESS(ref.nbBlocks == 3);
                VWITNESS(ref.nbBlocks == 1 && !ref.hasFcs && ref.minRegen > 0);
                VWITNESS(ref.nbCompressed == 1 && (src[4] & 4));
            } else {
                VCHECKM(fi.compressedSize == (size_t)MEM_readLE32(src + 4) + 8, "skippable frame size = its length field + 8");
                VWITNESS(fi.compressedSize == 12);
            }
        } else if (!isSkippable) {
            VCHECKM(!ref.ok || n < 6, "every complete well-formed frame is sized");
        }
        VWITNESS(ZSTD_isError(fi.compressedSize) && n == NB);
    }
}
