/* @harness c07.opt_reseed
 * @props C07
 * @tier quick
 * @functions ZSTD_rescaleFreqs ZSTD_setBasePrices ZSTD_downscaleStats HIST_count_simple
 * @bounds self-composition: the optimal parser's statistics are (re)initialised for the FIRST block of a frame (litLengthSum == 0, as ZSTD_invalidateMatchState leaves it) on two contexts that hold ARBITRARY, different leftovers from earlier frames (price mode, sums, base prices, every entry of the four frequency tables), same input block (0..12 bytes, arbitrary), same literal-compression mode, no dictionary statistics; both optimisation levels
 * @outside literal compression enabled (the instance with the 256-entry literal histogram gave no verdict within 30 min / 10 GB and is not registered; with literals disabled the literal table is not involved); dictionary-seeded statistics (Huffman/FSE tables marked valid); later blocks (which by design depend on the previous blocks of the same frame)
 * @link lib/common/zstd_common.c lib/common/error_private.c lib/compress/hist.c
 * @mem native
 * @cbmc --unwind 260
 * @timeout 300
 * @memgb 6
 * @instance nolit -DH_LCM=ZSTD_ps_disable
 */
#include "v.h"
#include <string.h>
#include "compress/zstd_opt.c"

static unsigned litA[256], llA[MaxLL+1], mlA[MaxML+1], ofA[MaxOff+1];
static unsigned litB[256], llB[MaxLL+1], mlB[MaxML+1], ofB[MaxOff+1];
static ZSTD_entropyCTables_t g_costs;
static BYTE g_src[12];

static void stale(optState_t* o, unsigned* lit, unsigned* ll, unsigned* ml, unsigned* of)
{
    unsigned i;
    memset(o, 0, sizeof *o);
    o->litFreq = lit; o->litLengthFreq = ll; o->matchLengthFreq = ml; o->offCodeFreq = of;
    for (i = 0; i < 256; i++) lit[i] = nondet_uint();
    for (i = 0; i <= MaxLL; i++) ll[i] = nondet_uint();
    for (i = 0; i <= MaxML; i++) ml[i] = nondet_uint();
    for (i = 0; i <= MaxOff; i++) of[i] = nondet_uint();
    o->litSum = nondet_uint(); o->matchLengthSum = nondet_uint(); o->offCodeSum = nondet_uint();
    o->litLengthSum = 0;                                   /* what a context reset guarantees (ZSTD_invalidateMatchState) */
    o->litSumBasePrice = nondet_uint(); o->litLengthSumBasePrice = nondet_uint(); o->matchLengthSumBasePrice = nondet_uint(); o->offCodeSumBasePrice = nondet_uint();
    o->priceType = nondet_bool() ? zop_predef : zop_dynamic;
    o->symbolCosts = &g_costs;
}

void harness(void)
{
    optState_t A, B; size_t const n = nondet_size(); int const optLevel = nondet_bool() ? 2 : 0; unsigned i;
    unsigned const lcm = H_LCM;      /* literal compression off: the literal table is not involved */
    VASSUME(n <= 12);
    for (i = 0; i < 12; i++) g_src[i] = nondet_uchar();
    g_costs.huf.repeatMode = nondet_bool() ? HUF_repeat_none : HUF_repeat_check;       /* no dictionary statistics */
    stale(&A, litA, llA, mlA, ofA); stale(&B, litB, llB, mlB, ofB);
    A.literalCompressionMode = (ZSTD_paramSwitch_e)lcm; B.literalCompressionMode = (ZSTD_paramSwitch_e)lcm;
    ZSTD_rescaleFreqs(&A, g_src, n, optLevel);
    ZSTD_rescaleFreqs(&B, g_src, n, optLevel);
    VCHECKM(A.priceType == B.priceType, "price mode of a frame's first block does not depend on what the context did before");
    VCHECKM(A.litLengthSum == B.litLengthSum && A.matchLengthSum == B.matchLengthSum && A.offCodeSum == B.offCodeSum, "sequence-symbol statistics are re-seeded identically");
    VCHECKM(A.litLengthSumBasePrice == B.litLengthSumBasePrice && A.matchLengthSumBasePrice == B.matchLengthSumBasePrice && A.offCodeSumBasePrice == B.offCodeSumBasePrice, "base prices are re-seeded identically");
    if (lcm != ZSTD_ps_disable) VCHECKM(A.litSum == B.litSum && A.litSumBasePrice == B.litSumBasePrice, "literal statistics are re-seeded identically");
    {   unsigned const k = nondet_uint();
        if (k <= MaxLL) VCHECKM(llA[k] == llB[k], "literal-length table identical");
        if (k <= MaxML) VCHECKM(mlA[k] == mlB[k], "match-length table identical");
        if (k <= MaxOff) VCHECKM(ofA[k] == ofB[k], "offset-code table identical");
        if (k < 256 && lcm != ZSTD_ps_disable) VCHECKM(litA[k] == litB[k], "literal table identical");
    }
    VWITNESS(A.priceType == zop_predef);
    VWITNESS(A.priceType == zop_dynamic && n == 9);
}
