/* @harness c16.dparam
 * @props C16
 * @tier quick
 * @functions ZSTD_dParam_getBounds ZSTD_DCtx_setParameter ZSTD_DCtx_getParameter ZSTD_DCtx_reset ZSTD_DCtx_resetParameters ZSTD_initDCtx_internal ZSTD_DCtx_setMaxWindowSize ZSTD_DCtx_setFormat ZSTD_clearDict
 * @bounds parameter id and value: every 32-bit int; streamStage: every enum value; the seven parameter fields of the context: arbitrary; staticSize arbitrary; no dictionary attached
 * @assume maxWindowSize within [1<<ZSTD_WINDOWLOG_ABSOLUTEMIN, 1<<ZSTD_WINDOWLOG_MAX] (established by both setters; checked for ZSTD_DCtx_setMaxWindowSize in instance grid)
 * @assume default values = what ZSTD_initDCtx_internal() establishes on a second context, read through the public getter
 * @outside ZSTD_d_windowLogMax is stored as a size: read-back checked only for in-range values
 * @link lib/common/zstd_common.c lib/common/error_private.c lib/decompress/zstd_ddict.c
 * @mem native
 * @cbmc --unwind 4
 * @timeout 300
 * @memgb 4
 * @instance grid -DH_GRID
 * @instance reset -DH_RESET
 */
#include "v.h"
#include <string.h>
#include "decompress/zstd_decompress.c"

static ZSTD_DCtx g_dctx, g_fresh;

static void arbitrary_params(ZSTD_DCtx* d)
{
    d->format = (ZSTD_format_e)nondet_uint();
    d->maxWindowSize = nondet_size();
    /* representation invariant kept by both setters (ZSTD_d_windowLogMax, ZSTD_DCtx_setMaxWindowSize) */
    VASSUME(d->maxWindowSize >= ((size_t)1 << ZSTD_WINDOWLOG_ABSOLUTEMIN) && d->maxWindowSize <= ((size_t)1 << ZSTD_WINDOWLOG_MAX));
    d->outBufferMode = (ZSTD_bufferMode_e)nondet_uint();
    d->forceIgnoreChecksum = (ZSTD_forceIgnoreChecksum_e)nondet_uint();
    d->refMultipleDDicts = (ZSTD_refMultipleDDicts_e)nondet_uint();
    d->disableHufAsm = nondet_int();
    d->maxBlockSizeParam = nondet_int();
    d->staticSize = nondet_size();
    { unsigned const st = nondet_uint(); VASSUME(st <= zdss_flush); d->streamStage = (ZSTD_dStreamStage)st; }
}

#ifdef H_GRID
void harness(void)
{
    ZSTD_DCtx* const d = &g_dctx;
    int const param = nondet_int(), value = nondet_int(), q = nondet_int();
    int qBefore = 0, qAfter = 0, selfBefore = 0;
    arbitrary_params(d);
    {   ZSTD_bounds const b = ZSTD_dParam_getBounds((ZSTD_dParameter)param);
        size_t const gq0 = ZSTD_DCtx_getParameter(d, (ZSTD_dParameter)q, &qBefore);
        size_t const gs0 = ZSTD_DCtx_getParameter(d, (ZSTD_dParameter)param, &selfBefore);
        ZSTD_dStreamStage const stage0 = d->streamStage;
        size_t const r = ZSTD_DCtx_setParameter(d, (ZSTD_dParameter)param, value);
        int const inBounds = !ZSTD_isError(b.error) && value >= b.lowerBound && value <= b.upperBound;
        if (ZSTD_isError(b.error)) VCHECKM(ZSTD_isError(r), "parameter without bounds is refused");
        if (stage0 != zdss_init) VCHECKM(ZSTD_isError(r), "decompression parameters are refused mid-frame");
        if (ZSTD_isError(r)) {
            int now = 0;
            if (!ZSTD_isError(gs0)) { VCHECK(!ZSTD_isError(ZSTD_DCtx_getParameter(d, (ZSTD_dParameter)param, &now))); VCHECKM(now == selfBefore, "rejected set leaves the parameter unchanged"); }
        } else {
            int got = 0;
            VCHECKM(!ZSTD_isError(b.error), "accepted parameter has bounds");
            VCHECKM(!ZSTD_isError(ZSTD_DCtx_getParameter(d, (ZSTD_dParameter)param, &got)), "accepted parameter can be read back");
            VCHECKM((got >= b.lowerBound && got <= b.upperBound) || got == 0, "stored value inside advertised bounds (or 0 = default)");
            if (inBounds) VCHECKM(got == value, "in-range value reads back unchanged");
            else VCHECKM(value == 0, "out-of-range value accepted only as the documented 0 = default");
        }
        if (inBounds && stage0 == zdss_init && !(param == ZSTD_d_refMultipleDDicts && d->staticSize != 0))
            VCHECKM(!ZSTD_isError(r), "value inside advertised bounds is accepted in init stage");
        if (q != param && !ZSTD_isError(gq0)) {
            VCHECK(!ZSTD_isError(ZSTD_DCtx_getParameter(d, (ZSTD_dParameter)q, &qAfter)));
            VCHECKM(qAfter == qBefore, "setting one parameter leaves every other parameter unchanged");
        }
        {   /* the other setter keeps the invariant assumed above */
            size_t const mw = nondet_size();
            size_t const rw = ZSTD_DCtx_setMaxWindowSize(d, mw);
            if (!ZSTD_isError(rw)) VCHECKM(d->maxWindowSize == mw && mw >= ((size_t)1 << ZSTD_WINDOWLOG_ABSOLUTEMIN) && mw <= ((size_t)1 << ZSTD_WINDOWLOG_MAX), "setMaxWindowSize stores only sizes inside the documented range");
            else VCHECKM(d->streamStage != zdss_init || mw < ((size_t)1 << ZSTD_WINDOWLOG_ABSOLUTEMIN) || mw > ((size_t)1 << ZSTD_WINDOWLOG_MAX), "setMaxWindowSize refuses only out-of-range sizes or mid-frame calls");
        }
        VWITNESS(!ZSTD_isError(r) && param == ZSTD_d_maxBlockSize && value == 4096);
        VWITNESS(!ZSTD_isError(r) && param == ZSTD_d_windowLogMax && value == 0);
        VWITNESS(ZSTD_isError(r) && inBounds && stage0 == zdss_init);
    }
}
#endif

#ifdef H_RESET
void harness(void)
{
    ZSTD_DCtx* const d = &g_dctx;
    int const q = nondet_int();
    unsigned const directive = nondet_uint();
    int before = 0, got = 0, def = 0;
    VASSUME(directive == ZSTD_reset_session_only || directive == ZSTD_reset_parameters || directive == ZSTD_reset_session_and_parameters);
    arbitrary_params(d);
    ZSTD_initDCtx_internal(&g_fresh);
    {   size_t const gb = ZSTD_DCtx_getParameter(d, (ZSTD_dParameter)q, &before);
        ZSTD_dStreamStage const stage0 = d->streamStage;
        size_t const r = ZSTD_DCtx_reset(d, (ZSTD_ResetDirective)directive);
        size_t const g1 = ZSTD_DCtx_getParameter(d, (ZSTD_dParameter)q, &got);
        size_t const g0 = ZSTD_DCtx_getParameter(&g_fresh, (ZSTD_dParameter)q, &def);
        VCHECK(ZSTD_isError(g1) == ZSTD_isError(g0) && ZSTD_isError(gb) == ZSTD_isError(g0));
        if (directive == ZSTD_reset_session_only) {
            VCHECKM(!ZSTD_isError(r) && d->streamStage == zdss_init, "session reset succeeds and returns to init stage");
            if (!ZSTD_isError(g1)) VCHECKM(got == before, "session reset keeps every parameter");
        } else if (directive == ZSTD_reset_parameters && stage0 != zdss_init) {
            VCHECKM(ZSTD_isError(r), "parameter reset refused mid-frame");
            if (!ZSTD_isError(g1)) VCHECKM(got == before, "refused reset changes nothing");
        } else {
            VCHECKM(!ZSTD_isError(r), "parameter reset accepted");
            if (!ZSTD_isError(g1)) VCHECKM(got == def, "after a parameter reset every parameter reads back its default");
            VCHECKM(d->ddict == NULL && d->ddictLocal == NULL && d->dictUses == ZSTD_dont_use, "parameter reset drops dictionaries");
            VWITNESS(!ZSTD_isError(g1) && q == ZSTD_d_maxBlockSize);
            VWITNESS(!ZSTD_isError(g1) && q == ZSTD_d_windowLogMax);
        }
        VWITNESS(directive == ZSTD_reset_parameters && stage0 != zdss_init);
    }
}
#endif
