/* @harness c14.levels
 * @props C14 C16
 * @tier quick
 * @functions ZSTD_estimateCStreamSize ZSTD_estimateCStreamSize_internal ZSTD_estimateCCtxSize ZSTD_estimateCCtxSize_internal ZSTD_getCParams_internal ZSTD_adjustCParams_internal ZSTD_estimateCStreamSize_usingCParams ZSTD_estimateCCtxSize_usingCParams ZSTD_estimateCCtxSize_usingCCtxParams_internal ZSTD_checkCParams
 * @bounds every pair of levels 1 <= l <= L <= 22 (both symbolic) for the streaming and the one-shot estimate; every level in [-64, 22] and every source-size hint (64 bit) and dictionary size (< 2^31) for the level -> parameters table
 * @outside running a compression inside memory of the estimated size (the reservation sequence itself: c13.cwksp / thorough)
 * @link lib/common/zstd_common.c lib/common/error_private.c lib/compress/zstd_ldm.c
 * @mem native
 * @cbmc --unwind 26 --object-bits 12
 * @timeout 300
 * @memgb 4
 * @instance cstream -DH_CSTREAM
 * @instance cparams -DH_CPARAMS
 */
#include "v.h"
#include "compress/zstd_compress.c"

void harness(void)
{
#if defined(H_CSTREAM) || defined(H_CCTX)
    int const L = nondet_int(), l = nondet_int();
    VASSUME(L >= 1 && L <= ZSTD_MAX_CLEVEL && l >= 1 && l <= L);
#  ifdef H_CSTREAM
    {   size_t const budget = ZSTD_estimateCStreamSize(L);
        size_t const need = ZSTD_estimateCStreamSize_internal(l);
        VCHECKM(!ZSTD_isError(budget) && !ZSTD_isError(need), "estimates are sizes, not errors");
        VCHECKM(need <= budget, "ZSTD_estimateCStreamSize(L) is a budget large enough for streaming at every level 1..L");
        VWITNESS(L == 16 && l == 12);
    }
#  else
    {   size_t const budget = ZSTD_estimateCCtxSize(L);
        size_t const need = ZSTD_estimateCCtxSize_internal(l);
        VCHECKM(!ZSTD_isError(budget) && !ZSTD_isError(need), "estimates are sizes, not errors");
        VCHECKM(need <= budget, "ZSTD_estimateCCtxSize(L) is a budget large enough for one-shot compression at every level 1..L");
        VWITNESS(L == 19 && l == 13);
    }
#  endif
#else
    {   int const level = nondet_int();
        unsigned long long const srcSizeHint = nondet_u64();
        size_t const dictSize = nondet_size();
        unsigned const mode = nondet_uint();
        VASSUME(level >= -64 && level <= ZSTD_MAX_CLEVEL && dictSize < ((size_t)1 << 31) && mode <= ZSTD_cpm_unknown);
        {   ZSTD_compressionParameters const cp = ZSTD_getCParams_internal(level, srcSizeHint, dictSize, (ZSTD_cParamMode_e)mode);
            VCHECKM(!ZSTD_isError(ZSTD_checkCParams(cp)), "the level table and its adjustment never produce out-of-range parameters");
            VWITNESS(cp.windowLog == 10);
            VWITNESS(cp.strategy == ZSTD_btultra2 && cp.windowLog == 27);
        }
    }
#endif
}
