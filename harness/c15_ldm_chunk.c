/* @harness c15.ldm_chunk
 * @props C15 C05
 * @tier quick
 * @functions ZSTD_ldm_generateSequences ZSTD_ldm_reduceTable ZSTD_window_needOverflowCorrection ZSTD_window_correctOverflow ZSTD_window_enforceMaxDist
 * @bounds long-distance-matcher chunk loop: one chunk (input 1..1 MiB; quick) or up to three chunks (thorough) starting at ANY 32-bit window index with ARBITRARY prior window/table state, so the single-chunk step is inductive over chunks; LDM window log 10..27; hash table of 16 entries (hashLog 4, bucket log 0..4), every entry any index not beyond the current position; dictionary end index arbitrary
 * @assume the per-chunk match finder ZSTD_ldm_generateSequences_internal is a stub that CHECKS, at the moment it would run, what it relies on: (1) every index it may use as a match (>= lowLimit) is within the LDM window of the END of the chunk (or a still-valid dictionary), (2) no table entry points beyond the current position (all entries were rebased by an overflow correction); the function text is re-extracted from /repo at every run
 * @outside the rolling-hash finder itself; sequences actually produced
 * @prep extract lib/compress/zstd_ldm.c ZSTD_ldm_reduceTable,ZSTD_ldm_generateSequences ldm_chunk.inc
 * @assume CBMC pointer checks are OFF in this harness (--no-pointer-check): the window base pointer is by design up to 4 GiB outside the buffer (ZSTD_ALLOW_POINTER_OVERFLOW_ATTR), and CBMC 6 cuts every path after such a pointer is compared; the obligations here are index ARITHMETIC (array bounds, overflow, shifts and the VCHECKs stay on)
 * @link lib/common/zstd_common.c lib/common/error_private.c
 * @ignore arithmetic overflow on signed - in .*(base|src|chunk)
 * @mem native
 * @cbmc --unwind 18 --unwindset ZSTD_ldm_generateSequences.0:4 --no-pointer-check
 * @timeout 300
 * @memgb 10
 * @instance one -DH_MAXSRC=(1<<20)
 * @instance three tier=thorough timeout=1800 -DH_MAXSRC=((2<<20)+64)
 */
#include "v.h"
#include <stdlib.h>
#include "compress/zstd_compress_internal.h"
#include "compress/zstd_ldm.h"

#define HLOG 4
static ldmEntry_t g_table[1 << HLOG];
static BYTE g_srcArena[64];     /* addresses only: the input is never read by this harness */
static ldmState_t g_ldm; static ldmParams_t g_params; static int g_chunks; static U32 g_maxDist;

static size_t ZSTD_ldm_generateSequences_internal(ldmState_t* ldmState, rawSeqStore_t* rawSeqStore, ldmParams_t const* params, void const* src, size_t srcSize)
{
    U32 const curr = (U32)((const BYTE*)src - ldmState->window.base);
    U32 const endIdx = curr + (U32)srcSize;
    unsigned const k = nondet_uint();
    (void)rawSeqStore; (void)params;
    g_chunks++;
    VCHECKM(srcSize >= 1 && srcSize <= ((size_t)1 << 20), "chunks are at most 1 MiB");
    VCHECKM(ldmState->window.lowLimit <= endIdx && ldmState->window.lowLimit <= ldmState->window.dictLimit, "window limits ordered and not beyond the end of the chunk");
    VCHECKM(endIdx - ldmState->window.lowLimit <= g_maxDist || ldmState->loadedDictEnd != 0,
            "every index the chunk's finder may match against is within the LDM window measured at the END of the chunk (or inside a still-valid dictionary)");
    if (k < (1u << HLOG)) VCHECKM(g_table[k].offset <= curr, "no LDM table entry points beyond the current position (every entry is rebased by an overflow correction)");
    return srcSize;      /* no sequence found: the whole chunk is leftover literals */
}
#include "ldm_chunk.inc"

void harness(void)
{
    size_t const srcSize = nondet_size();
    U32 const curr = nondet_uint(), windowLog = nondet_uint();
    BYTE* src; rawSeqStore_t seqs; static rawSeq seqArr[4]; unsigned i; size_t r;
    VASSUME(srcSize >= 1 && srcSize <= H_MAXSRC);
    VASSUME(windowLog >= 10 && windowLog <= 27);
    src = g_srcArena;      /* never dereferenced (the finder is a stub): only addresses matter */
    g_params.enableLdm = ZSTD_ps_enable; g_params.hashLog = HLOG; g_params.bucketSizeLog = nondet_uint(); VASSUME(g_params.bucketSizeLog <= HLOG);
    g_params.minMatchLength = 64; g_params.hashRateLog = 4; g_params.windowLog = windowLog;
    g_maxDist = 1u << windowLog;
    g_ldm.hashTable = g_table;
    g_ldm.window.base = src - curr; g_ldm.window.dictBase = g_ldm.window.base; g_ldm.window.nextSrc = src + srcSize;
    g_ldm.window.lowLimit = nondet_uint(); g_ldm.window.dictLimit = nondet_uint(); g_ldm.window.nbOverflowCorrections = nondet_uint();
    VASSUME(g_ldm.window.lowLimit <= g_ldm.window.dictLimit && g_ldm.window.dictLimit <= curr && g_ldm.window.lowLimit >= ZSTD_WINDOW_START_INDEX);
    VASSUME((unsigned long long)curr + srcSize <= 0xFFFFFFFFull);            /* ZSTD_CHUNKSIZE_MAX discipline of the callers */
    VASSUME(curr <= ZSTD_CURRENT_MAX + 1);                                     /* previous call left the index below the correction threshold */
    g_ldm.loadedDictEnd = nondet_uint(); VASSUME(g_ldm.loadedDictEnd <= g_ldm.window.dictLimit);
    for (i = 0; i < (1u << HLOG); i++) { g_table[i].offset = nondet_uint(); g_table[i].checksum = nondet_uint(); VASSUME(g_table[i].offset <= curr); }
    seqs.seq = seqArr; seqs.pos = 0; seqs.posInSequence = 0; seqs.size = 0; seqs.capacity = 4;
    r = ZSTD_ldm_generateSequences(&g_ldm, &seqs, &g_params, src, srcSize);
    VCHECKM(!ZSTD_isError(r), "chunk loop succeeds");
    VCHECKM(g_chunks == (int)((srcSize + ((size_t)1 << 20) - 1) >> 20), "every chunk of the input is processed once");
#if H_MAXSRC > (1<<20)
    VWITNESS(g_chunks == 3 && g_ldm.window.nbOverflowCorrections != 0);
#else
    VWITNESS(g_chunks == 1 && g_ldm.window.nbOverflowCorrections != 0);
#endif
    VWITNESS(g_chunks == 1 && curr > ZSTD_CURRENT_MAX - 100);
    VWITNESS(g_ldm.loadedDictEnd != 0);
}
