/* @harness c02.dstream_tail
 * @props C02 C10 C09
 * @tier quick
 * @functions ZSTD_decompressStream ZSTD_checkOutBuffer ZSTD_limitCopy ZSTD_nextSrcSizeToDecompress
 * @bounds end-of-frame behaviour of the streaming decoder: TWO consecutive calls from an ARBITRARY state in which the frame's last block has been decoded (nothing more expected) and 0..24 bytes of its output are still in the internal buffer; per call: any output capacity 0..24, any number 0..3 of following input bytes offered; buffered output mode; withheld ("hostage") byte flag consistent with the state
 * @assume state invariant (established by the earlier calls, see c09.continue_step and the body of the function): frame fully decoded <=> stage == getFrameHeaderSize && expected == 0; unflushed output at call entry implies the hostage byte was taken; outStart <= outEnd <= outBuffSize
 * @assume ZSTD_decompressContinue is unreachable in these states (checked: stub asserts); copies are range-checked, content not tracked (check-only model)
 * @outside states with blocks still to decode (c09.continue_step covers the block state machine, c14.dstream_header the header stage)
 * @link lib/common/zstd_common.c lib/common/error_private.c lib/decompress/zstd_ddict.c
 * @mem check
 * @defs -DZSTD_DECODER_INTERNAL_BUFFER=64
 * @cbmc --unwind 5 --unwindset harness.0:20
 * @timeout 300
 * @memgb 6
 */
#include "v.h"
#include <string.h>
#include <stdlib.h>
#include "decompress/zstd_decompress.c"
size_t ZSTD_decompressBlock_internal(ZSTD_DCtx* dctx, void* dst, size_t dstCapacity, const void* src, size_t srcSize, const streaming_operation streaming)
{ (void)dctx; (void)dst; (void)dstCapacity; (void)src; (void)srcSize; (void)streaming; VCHECKM(0, "block decoder unreachable once the frame is fully decoded"); return ERROR(GENERIC); }
void ZSTD_checkContinuity(ZSTD_DCtx* dctx, const void* dst, size_t dstSize) { (void)dctx; (void)dst; (void)dstSize; }
size_t ZSTD_getcBlockSize(const void* src, size_t srcSize, blockProperties_t* bpPtr) { (void)src; (void)srcSize; (void)bpPtr; return ERROR(GENERIC); }
XXH_errorcode XXH64_reset(XXH64_state_t* s, XXH64_hash_t seed) { (void)s; (void)seed; return XXH_OK; }
XXH_errorcode XXH64_update(XXH64_state_t* s, const void* in, size_t len) { (void)s; (void)in; (void)len; return XXH_OK; }
XXH64_hash_t XXH64_digest(const XXH64_state_t* s) { (void)s; return 0; }

#define BMAX 24
static ZSTD_DCtx g_dctx;

void harness(void)
{
    ZSTD_DCtx* const d = &g_dctx;
    size_t pending;
    char* const ibuf = (char*)malloc(16 + 2 * BMAX);
    char* const user_in = (char*)malloc(8);
    char* const user_out = (char*)malloc(2 * BMAX + 8);
    int i;
    VASSUME(ibuf && user_in && user_out);
    for (i = 0; i < 8; i++) user_in[i] = (char)nondet_uchar();
    /* ---- arbitrary "frame fully decoded, output possibly pending" state ---- */
    d->format = ZSTD_f_zstd1; d->outBufferMode = ZSTD_bm_buffered;
    d->stage = ZSTDds_getFrameHeaderSize; d->expected = 0;
    d->inBuff = ibuf; d->inBuffSize = 16; d->outBuff = ibuf + 16; d->outBuffSize = 2 * BMAX; d->inPos = 0;
    d->outStart = nondet_size(); d->outEnd = nondet_size();
    VASSUME(d->outStart <= d->outEnd && d->outEnd <= d->outBuffSize && d->outEnd - d->outStart <= BMAX);
    pending = d->outEnd - d->outStart;
    d->hostageByte = nondet_bool();
    { unsigned const st = nondet_uint(); VASSUME(st == zdss_read || st == zdss_flush); d->streamStage = (ZSTD_dStreamStage)st; }
    if (pending) VASSUME(d->hostageByte == 1 && d->streamStage == zdss_flush);     /* invariant: unflushed output at entry => hostage taken, still flushing */
    if (d->streamStage == zdss_flush) VASSUME(pending > 0);                        /* a completed flush leaves the flush stage within the same call */
    d->fParams.frameContentSize = nondet_u64(); d->fParams.blockSizeMax = nondet_uint(); VASSUME(d->fParams.blockSizeMax <= ZSTD_BLOCKSIZE_MAX);
    d->noForwardProgress = 0; d->maxWindowSize = ZSTD_MAXWINDOWSIZE_DEFAULT;
    {   /* ---- call A ---- */
        int const hostage0 = (int)d->hostageByte;
        ZSTD_inBuffer in; ZSTD_outBuffer out; size_t rA;
        in.src = user_in; in.pos = 1; in.size = 1 + (nondet_uint() & 3);           /* 0..3 bytes offered (pos >= 1: the hostage byte, if any, sits just before) */
        out.dst = user_out; out.pos = 0; out.size = nondet_size(); VASSUME(out.size <= BMAX);
        {   size_t const inPos0 = in.pos, avail = in.size - in.pos;
            rA = ZSTD_decompressStream(d, &out, &in);
            VCHECKM(!ZSTD_isError(rA), "draining a decoded frame never fails");
            VCHECKM(out.pos <= out.size && in.pos <= in.size, "cursors stay inside the buffers");
            VCHECKM(out.pos == (pending < out.size ? pending : out.size), "output delivered = min(pending, capacity)");
            VCHECKM((rA == 0) == (out.pos == pending && (!hostage0 || avail >= 1)), "completion (0) is reported exactly when all output is flushed and the withheld last byte, if any, could be consumed");
            if (rA == 0) {
                VCHECKM(in.pos == inPos0 + (hostage0 ? 1 : 0), "on completion exactly the withheld byte is consumed, nothing of what follows the frame");
                VCHECKM(d->streamStage == zdss_init, "after completion the next call starts a new frame");
            } else {
                VCHECKM(in.pos == inPos0, "while the frame is not reported complete no further input is consumed");
                VCHECKM(d->streamStage != zdss_init, "as long as completion has not been reported the decoder must not restart (a withheld byte would be parsed as a new frame header)");
                VCHECKM(rA == 1, "only the withheld byte is still asked for");
            }
            VWITNESS(rA == 1 && out.pos == pending && hostage0);
            VWITNESS(rA == 1 && out.pos < pending);
            VWITNESS(rA == 0 && hostage0);
        }
        if (rA != 0) {
            /* ---- call B: the caller comes back with room and the byte that was asked for ---- */
            size_t const left = pending - out.pos;
            ZSTD_inBuffer inB; ZSTD_outBuffer outB; size_t rB;
            inB.src = user_in; inB.pos = 1; inB.size = 2;
            outB.dst = user_out; outB.pos = 0; outB.size = BMAX;
            rB = ZSTD_decompressStream(d, &outB, &inB);
            VCHECKM(rB == 0, "with room for the rest and the requested byte present, the next call completes the frame");
            VCHECKM(outB.pos == left && inB.pos == 2, "it delivers exactly the remaining output and consumes exactly the one withheld byte");
            VWITNESS(left > 0);
        }
    }
}
