/* @harness c04.huf_tables
 * @props C04
 * @tier quick
 * @functions HUF_readStats_wksp HUF_readDTableX1_wksp HUF_rescaleStats HUF_readDTableX2_wksp HUF_fillDTableX2 HUF_fillDTableX2Level2 HUF_fillDTableX2ForWeight HUF_buildDEltX2 HUF_getDTableDesc
 * @bounds Huffman tree description given as direct 4-bit weights (header byte 128..127+NW): exactly NW explicit weights (one instance per count), every nibble arbitrary (0..15), the last weight implied; so every tree of 2..NW+1 symbols of any depth and every invalid description of that size; both table readers run on the same bytes
 * @bounds instances accept*: tables of the capacity the frame decoder owns (log 12, HUF_TABLELOG_MAX); decided: a description the weight reader accepts (depth <= 12) is accepted by BOTH builders, a rejected one by neither, the builders are cut textually after their last accept/reject decision (the 4096-entry fill loops and their stores are outside these instances)
 * @bounds (no registered instance; kept for reference: no verdict within 50 min even for 2-symbol trees - nested pointer-walking fill loops) instances diff*: tables of capacity log 6 (64 entries; the builders are generic in the capacity, HUF_decompress*_DCtx callers pass such tables); decided in addition, for an ARBITRARY table index: the double-symbol (X2) entry decodes exactly the symbols and bit counts the single-symbol (X1) table yields for the same bits
 * @assume none beyond the bounds (real HUF_readStats_wksp, no stubs)
 * @outside FSE-compressed weight headers (header byte < 128; they feed the same rank statistics), trees of more than NW+1 symbols, table content at capacity 12, the bit-stream decoding loops (fast asm loops are disabled in every harness)
 * @prep sed lib/decompress/huf_decompress.c huf_cut1.c /\x2a\s+Compute\s+symbols\s+and\s+rankStart\s+given\s+rankVal:.*?\n\s+return\s+iSize;\n\} return\x20iSize;}
 * @prep sed huf_cut1.c huf_cut.c /\x2a\s+find\s+maxWeight\s+\x2a/.*?HUF_fillDTableX2\(dt,.*?tableLog\+1\); ;
 * @link lib/common/entropy_common.c lib/common/fse_decompress.c lib/common/error_private.c lib/common/zstd_common.c
 * @mem native
 * @cbmc --unwind 30
 * @timeout 900
 * @memgb 12
 * @instance accept12 backend=cadical -DNW=12 -DCAP=12
 * @instance accept13 backend=cadical -DNW=13 -DCAP=12
 * @instance accept3 -DNW=3 -DCAP=12
 * @instance accept16 tier=thorough backend=cadical timeout=3000 memgb=20 -DNW=16 -DCAP=12
 * @instance accept24 tier=thorough backend=cadical timeout=3000 memgb=20 -DNW=24 -DCAP=12
 */
#include "v.h"
#include <string.h>
#if CAP == 12
#include "huf_cut.c"     /* accept instances: scratch copy of huf_decompress.c in which both table builders END after their last accept/reject decision (the 4096-entry fill loops are cut: outside these instances) */
#else
#include "decompress/huf_decompress.c"
#endif

#ifndef NW
#define NW 2
#endif
#ifndef CAP
#define CAP 12
#endif

static HUF_DTable g_dt1[HUF_DTABLE_SIZE(CAP - 1)];    /* as HUF_CREATE_STATIC_DTABLEX1(t, CAP) */
static HUF_DTable g_dt2[HUF_DTABLE_SIZE(CAP)];        /* as HUF_CREATE_STATIC_DTABLEX2(t, CAP) */
static U32 g_w1[HUF_DECOMPRESS_WORKSPACE_SIZE_U32], g_w2[HUF_DECOMPRESS_WORKSPACE_SIZE_U32];
static U32 g_ws[HUF_READ_STATS_WORKSPACE_SIZE_U32];
static BYTE g_src[1 + (NW + 1) / 2];      /* exact-size object: any over-read leaves it; small enough for CBMC to track its cells individually */

void harness(void)
{
    size_t const n = NW;                                  /* explicit weights: concrete per instance, so that the FSE-compressed header branch is pruned by symbolic execution itself */
    size_t srcSize; BYTE* src; size_t i, r1, r2, rs;
    static BYTE weights[HUF_SYMBOLVALUE_MAX + 1]; static U32 rank[HUF_TABLELOG_MAX + 1]; U32 nbSym = 0, tl = 0;
    srcSize = 1 + (n + 1) / 2;
    src = g_src;
    src[0] = (BYTE)(127 + n);
    for (i = 1; i < srcSize; i++) src[i] = nondet_uchar();
#if CAP == 12
    /* the frame decoder's table: ZSTD_decompressBegin writes capacity log 12 into a HUF_DTABLE_SIZE(12) table used by either builder */
    static HUF_DTable g_dtz[HUF_DTABLE_SIZE(HUF_TABLELOG_MAX)];
#   define T1 g_dtz
#   define T2 g_dt2
    T1[0] = (HUF_DTable)(HUF_TABLELOG_MAX * 0x01000001u);
    T2[0] = (HUF_DTable)(HUF_TABLELOG_MAX * 0x01000001u);
#else
#   define T1 g_dt1
#   define T2 g_dt2
    T1[0] = (HUF_DTable)((CAP - 1) * 0x01000001u);
    T2[0] = (HUF_DTable)(CAP * 0x01000001u);
#endif

    rs = HUF_readStats_wksp(weights, sizeof weights, rank, &nbSym, &tl, src, srcSize, g_ws, sizeof g_ws, 0);
    r1 = HUF_readDTableX1_wksp(T1, src, srcSize, g_w1, sizeof g_w1, 0);
    r2 = HUF_readDTableX2_wksp(T2, src, srcSize, g_w2, sizeof g_w2, 0);

    if (HUF_isError(rs)) {
        VCHECKM(HUF_isError(r1) && HUF_isError(r2), "a tree description the weight reader rejects is rejected by both table builders");
        VWITNESS(1);
        return;
    }
    VCHECKM(tl >= 1 && tl <= HUF_TABLELOG_MAX && nbSym == n + 1, "accepted description: depth within the format limit, one implied symbol");
    if (tl <= CAP) {
        VCHECKM(!HUF_isError(r1), "a specification-valid tree that fits the table is accepted by the single-symbol table builder");
        VCHECKM(!HUF_isError(r2), "a specification-valid tree that fits the table is accepted by the double-symbol table builder");
        VCHECKM(r1 == srcSize && r2 == srcSize, "both builders consume exactly the description");
    } else {
        VCHECKM(HUF_isError(r1) && HUF_isError(r2), "a tree deeper than the table capacity is refused by both builders (never written past the table)");
#if CAP < 12
        VWITNESS(1);
#endif
        return;
    }
#if NW >= 12 || CAP < 12
    VWITNESS(tl == CAP);      /* a tree of depth 12 needs at least 13 symbols (two of weight 1, one of every other weight) */
#endif
#if CAP != 12
    {   DTableDesc const d1 = HUF_getDTableDesc(T1), d2 = HUF_getDTableDesc(T2);
        const HUF_DEltX1* const t1 = (const HUF_DEltX1*)(T1 + 1);
        const HUF_DEltX2* const t2 = (const HUF_DEltX2*)(T2 + 1);
        U32 const dtLog = d1.tableLog;
        size_t const val = nondet_size();
        VCHECKM(d1.tableLog == d2.tableLog && dtLog >= tl && dtLog <= CAP, "both tables index the same number of bits");
        VASSUME(val < ((size_t)1 << dtLog));
        {   HUF_DEltX1 const e1 = t1[val]; HUF_DEltX2 const e2 = t2[val];
            BYTE const b0 = (BYTE)(e2.sequence & 0xFF), b1 = (BYTE)(e2.sequence >> 8);     /* little-endian store order (MEM_writeLE16) */
            VCHECKM(e1.nbBits >= 1 && e1.nbBits <= dtLog && e1.byte <= n, "single-symbol entry: code length within the table, symbol within the alphabet");
            VCHECKM(e2.length == 1 || e2.length == 2, "double-symbol entry holds one or two symbols");
            VCHECKM(b0 == e1.byte, "both decoders produce the same first symbol from the same bits");
            if (e2.length == 1) VCHECKM(e2.nbBits == e1.nbBits, "one-symbol entry consumes the same number of bits in both tables");
            else {
                size_t const val2 = (val << e1.nbBits) & (((size_t)1 << dtLog) - 1);
                HUF_DEltX1 const s = t1[val2];
                VCHECKM(b1 == s.byte && e2.nbBits == e1.nbBits + s.nbBits && e2.nbBits <= dtLog, "two-symbol entry: second symbol and total bits equal two single-symbol steps");
            }
            VWITNESS(e2.length == 2);
            VWITNESS(tl == 1 && dtLog == CAP);
        }
    }
#endif
}
