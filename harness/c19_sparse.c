/* @harness c19.sparse
 * @props C19
 * @tier quick
 * @functions AIO_fwriteSparse AIO_fwriteSparseEnd
 * @bounds a decoded stream written as TWO consecutive buffers followed by the end call: first buffer 0 or 8 bytes and second buffer 0..11 bytes (quick) / 0, 8 or 16 and 0..19 (thorough) (any length, incl. not a multiple of 8), every byte arbitrary (so every layout of zero runs, incl. runs crossing the buffer boundary and the unaligned tail); sparse support off / on; carried skip count starts at 0
 * @assume FILE is a log model of the destination: fwrite records (position, length, source) and extends the length, fseek(SEEK_CUR) moves the position without extending (holes read as zero), both always succeed; the 32 KiB segment loop runs for one segment per call (buffers are smaller than a segment)
 * @outside kernel/libc sparse-file semantics; asynchronous write-pool threads; buffers of 32 KiB and more
 * @link lib/common/zstd_common.c lib/common/error_private.c
 * @defs -DZSTD_MULTITHREAD
 * @mem native
 * @cbmc --unwind 22 --unwindset harness.0:20,harness.1:30,file_at.0:12
 * @timeout 900
 * @memgb 8
 * @instance q -DH_BIG=0
 * @instance big tier=thorough timeout=1200 -DH_BIG=1
 */
#include "v.h"
#include <stdio.h>
#include <string.h>
#include <stdlib.h>

/* ---- destination file model: a LOG of writes (position, length, source) and seeks; content is derived from the log ---- */
#define NOPS 10
typedef struct { long pos; size_t len; const unsigned char* src; unsigned char one; } wop_t;   /* 1-byte writes are stored by value (their source may be a local of the writer) */
static wop_t g_w[NOPS]; static int g_nw; static long g_pos, g_len; static int g_nwrites, g_nseeks;
static size_t v_fwrite(const void* p, size_t sz, size_t n, FILE* f) {
    size_t const bytes = sz * n; (void)f;
    VCHECKM(g_nw < NOPS, "write log large enough");
    VCHECKM(g_pos >= 0, "never writes before the start of the file");
    if (g_nw < NOPS) { g_w[g_nw].pos = g_pos; g_w[g_nw].len = bytes; g_w[g_nw].src = (const unsigned char*)p; g_w[g_nw].one = bytes ? ((const unsigned char*)p)[0] : 0; g_nw++; }
    g_pos += (long)bytes; if (g_pos > g_len) g_len = g_pos; g_nwrites++;
    return n; }
static int v_fseek(FILE* f, long off, int whence) { (void)f; VCHECKM(whence == SEEK_CUR, "sparse writer seeks relative to the current position"); g_pos += off; g_nseeks++; return 0; }
/* byte of the file at offset j: the last write covering j, else 0 (a hole) */
static unsigned char file_at(long j) {
    unsigned char v = 0; int k;
    for (k = 0; k < NOPS; k++) if (k < g_nw && j >= g_w[k].pos && j < g_w[k].pos + (long)g_w[k].len) v = (g_w[k].len == 1) ? g_w[k].one : g_w[k].src[j - g_w[k].pos];
    return v; }
#define fwrite(p,s,n,f) v_fwrite((p),(s),(n),(f))
#define fseek(f,o,w)    v_fseek((f),(long)(o),(w))
#define fseeko(f,o,w)   v_fseek((f),(long)(o),(w))

#include "fileio_asyncio.c"
FIO_display_prefs_t g_display_prefs = { 0, FIO_ps_never };

void harness(void)
{
    FIO_prefs_t prefs; size_t const n1 = nondet_size(), n2 = nondet_size(); size_t i;
    unsigned char* const b1 = (unsigned char*)malloc(16); unsigned char* const b2 = (unsigned char*)malloc(24);
    unsigned skips;
    VASSUME(b1 && b2);
    VASSUME((n1 == 0 || n1 == 8 || (H_BIG && n1 == 16)) && n2 <= (H_BIG ? 19 : 11));
    memset(&prefs, 0, sizeof prefs);
    prefs.testMode = 0; prefs.sparseFileSupport = nondet_bool() ? (nondet_bool() ? 2 : 1) : 0;
    for (i = 0; i < 16; i++) b1[i] = nondet_uchar();
    for (i = 0; i < 24; i++) b2[i] = nondet_uchar();
    skips = AIO_fwriteSparse((FILE*)b1, b1, n1, &prefs, 0);
    skips = AIO_fwriteSparse((FILE*)b1, b2, n2, &prefs, skips);
    AIO_fwriteSparseEnd(&prefs, (FILE*)b1, skips);
    VCHECKM((size_t)g_len == n1 + n2, "the file ends exactly where the decoded data ends (no missing tail, no spurious trailing bytes)");
    {   size_t const j = nondet_size();
        if (j < n1) VCHECKM(file_at((long)j) == b1[j], "file content equals the decoded bytes (first buffer)");
        else if (j < n1 + n2) VCHECKM(file_at((long)j) == b2[j - n1], "file content equals the decoded bytes (second buffer), with sparse writing on or off");
    }
    VWITNESS(prefs.sparseFileSupport && g_nseeks >= 2 && (n2 & 7) && b2[n2 - 1] != 0);
    VWITNESS(prefs.sparseFileSupport && n2 == (H_BIG ? 19 : 11) && b2[n2 - 1] == 0 && b2[n2 - 2] == 0);
    VWITNESS(!prefs.sparseFileSupport && g_nwrites == 2);
}
