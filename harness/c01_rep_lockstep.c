/* @harness c01.rep_lockstep
 * @props C01 C05
 * @tier quick
 * @functions ZSTD_seqStore_resolveOffCodes ZSTD_resolveRepcodeToRawOffset ZSTD_updateRep
 * @bounds up to 3 consecutive sequences, every field arbitrary (offset code: any 32-bit value >= 1; literal length: any 16-bit value; long-length marker on any sequence, of either kind); encoder-side and decoder-side repeat-offset histories: any non-zero representable offsets (< 2^32-3), equal or different (they differ after a raw/RLE block was emitted in between)
 * @assume decoder-side repeat-offset semantics are written in the harness from doc/zstd_compression_format.md; the offsets the match finder meant are non-zero (it never emits an invalid repcode)
 * @outside more than 3 sequences per step (the function is a left fold: the per-sequence step from arbitrary histories is what is checked)
 * @link lib/common/zstd_common.c lib/common/error_private.c
 * @mem native
 * @cbmc --unwind 5
 * @timeout 300
 * @memgb 3
 */
#include "v.h"
#include <string.h>
#include "compress/zstd_compress.c"

#define NS 3
static seqDef g_seq[NS], g_orig[NS];

static U32 ref_resolve(U32 rep[3], U32 offBase, U32 litLength)   /* format document, "Repeat offsets" */
{
    U32 off;
    if (offBase > 3) { off = offBase - 3; rep[2] = rep[1]; rep[1] = rep[0]; rep[0] = off; return off; }
    {   U32 const idx = offBase - 1 + (litLength == 0);
        if (idx == 0) return rep[0];
        off = (idx == 3) ? rep[0] - 1 : rep[idx];
        if (idx != 1) rep[2] = rep[1];
        rep[1] = rep[0]; rep[0] = off;
        return off;
    }
}

void harness(void)
{
    seqStore_t ss; repcodes_t dRep, cRep; U32 dRef[3], cRef[3];
    U32 const nbSeq = nondet_uint(); unsigned i;
    VASSUME(nbSeq >= 1 && nbSeq <= NS);
    memset(&ss, 0, sizeof ss);
    ss.sequencesStart = g_seq; ss.sequences = g_seq + nbSeq;
    { unsigned const t = nondet_uint(); VASSUME(t <= ZSTD_llt_matchLength); ss.longLengthType = (ZSTD_longLengthType_e)t; }
    ss.longLengthPos = nondet_uint(); VASSUME(ss.longLengthPos < nbSeq);
    for (i = 0; i < NS; i++) {
        g_seq[i].offBase = nondet_uint(); g_seq[i].litLength = nondet_ushort(); g_seq[i].mlBase = nondet_ushort();
        VASSUME(g_seq[i].offBase >= 1);
        g_orig[i] = g_seq[i];
    }
    for (i = 0; i < 3; i++) { dRep.rep[i] = nondet_uint(); cRep.rep[i] = nondet_uint(); VASSUME(dRep.rep[i] != 0 && cRep.rep[i] != 0);
        VASSUME(dRep.rep[i] <= 0xFFFFFFFFu - ZSTD_REP_NUM && cRep.rep[i] <= 0xFFFFFFFFu - ZSTD_REP_NUM);   /* histories hold representable offsets (offsets are < 2^32-3 in the format) */ dRef[i] = dRep.rep[i]; cRef[i] = cRep.rep[i]; }
    ZSTD_seqStore_resolveOffCodes(&dRep, &cRep, &ss, nbSeq);
    for (i = 0; i < NS; i++) if (i < nbSeq) {
        /* the literal length the decoder will see: the 16-bit field, +65536 on the sequence carrying the long-literal marker */
        U32 const ll = (U32)g_orig[i].litLength + ((ss.longLengthType == ZSTD_llt_literalLength && ss.longLengthPos == i) ? 0x10000u : 0);
        U32 const meant = ref_resolve(cRef, g_orig[i].offBase, ll);       /* what the match finder meant, in ITS history */
        VASSUME(meant != 0);
        {   U32 const got = ref_resolve(dRef, g_seq[i].offBase, ll);      /* what the decoder computes from the emitted code */
            VCHECKM(got == meant, "decoder resolves every emitted offset code to the offset the match finder meant");
            VCHECKM(g_seq[i].litLength == g_orig[i].litLength && g_seq[i].mlBase == g_orig[i].mlBase, "lengths untouched");
        }
    }
    VCHECKM(dRep.rep[0] == dRef[0] && dRep.rep[1] == dRef[1] && dRep.rep[2] == dRef[2], "simulated decoder history equals the real decoder's history after these sequences");
    VCHECKM(cRep.rep[0] == cRef[0] && cRep.rep[1] == cRef[1] && cRep.rep[2] == cRef[2], "encoder history follows the unmodified sequences");
    VWITNESS(nbSeq == 3 && g_seq[1].offBase != g_orig[1].offBase);
    VWITNESS(nbSeq == 2 && ss.longLengthType == ZSTD_llt_literalLength && ss.longLengthPos == 1 && g_orig[1].litLength == 0 && g_orig[1].offBase == 3);
    VWITNESS(nbSeq == 1 && g_orig[0].offBase == 3 && g_orig[0].litLength == 0);
}
