/* @harness c11.input_range
 * @props C11
 * @tier thorough
 * @functions ZSTDMT_tryGetInputRange ZSTDMT_getInputDataInUse ZSTDMT_isOverlapped ZSTDMT_waitForLdmComplete
 * @bounds SEQUENTIAL step (schedules are not explored): one attempt to carve the next input section out of the round buffer, from an ARBITRARY ring state satisfying the layout invariant I_r: ring capacity 8..48, section size 1..8, overlap size 0..8, 0..2 jobs in flight of which the oldest is still reading its input (the others in any state), each job's prefix and source anywhere the layout rules allow (contiguous chain, at most one wrap between consecutive jobs, a wrapped job's prefix copied to the ring start), read cursor of every job arbitrary
 * @assume I_r, in "unrolled" ring coordinates (physical offset = coordinate mod capacity): every job's prefix lies immediately before its source and neither crosses the ring end; consecutive sources are contiguous or separated by exactly one wrap; the ring position is the end of the newest source and the pending prefix is its tail; everything from the oldest in-flight prefix to the ring position spans at most one capacity (this is the part re-proved as post-condition for the section just granted: inductive step); capacity >= overlap size + 2 sections (+1 when the overlap is non-zero), which is what ZSTDMT_initCStream_internal allocates at least (max(window, sections) + slack, overlap <= window); every prefix is at most the overlap size and at most the previous source
 * @bounds decided: the function looks only at the oldest unfinished job's prefix (or source when it has no prefix) - that this is enough is the obligation: when a section is granted it lies inside the ring, has the section size, starts right after the (possibly moved) prefix, and is disjoint from the prefix AND source of EVERY unfinished job; the prefix is moved only onto bytes no unfinished job still reads; the span invariant holds again with the granted section included
 * @assume pthread lock/unlock are no-op stubs (the job's read cursor is read under its mutex; its value is arbitrary here, which over-approximates any interleaving of the workers' progress); LDM off; copies are range-checked only
 * @outside interleavings, LDM window waiting, the jobs' own reads (they stay inside prefix + source: worker body not encoded)
 * @link lib/common/zstd_common.c lib/common/error_private.c
 * @defs -DZSTD_MULTITHREAD
 * @backend cadical
 * @mem check
 * @cbmc --unwind 5 --object-bits 11
 * @timeout 1500
 * @memgb 8
 */
#include "v.h"
#include <string.h>
#include <pthread.h>
#include "compress/zstdmt_compress.c"

int pthread_mutex_init(pthread_mutex_t* m, const pthread_mutexattr_t* a) { (void)m; (void)a; return 0; }
int pthread_mutex_destroy(pthread_mutex_t* m) { (void)m; return 0; }
int pthread_cond_init(pthread_cond_t* c, const pthread_condattr_t* a) { (void)c; (void)a; return 0; }
int pthread_cond_destroy(pthread_cond_t* c) { (void)c; return 0; }
int pthread_mutex_lock(pthread_mutex_t* m) { (void)m; return 0; }
int pthread_mutex_unlock(pthread_mutex_t* m) { (void)m; return 0; }
int pthread_cond_wait(pthread_cond_t* c, pthread_mutex_t* m) { (void)c; (void)m; VCHECKM(0, "no wait on this path (LDM disabled)"); return 0; }
int pthread_cond_signal(pthread_cond_t* c) { (void)c; return 0; }
int pthread_cond_broadcast(pthread_cond_t* c) { (void)c; return 0; }
size_t ZSTD_compressBound(size_t s) { return s + (s >> 8) + 64; }
void ZSTD_referenceExternalSequences(ZSTD_CCtx* cctx, rawSeq* seq, size_t nbSeq) { (void)cctx; (void)seq; (void)nbSeq; }
size_t ZSTD_freeCDict(ZSTD_CDict* cdict) { (void)cdict; return 0; }
XXH_errorcode XXH64_reset(XXH64_state_t* s, XXH64_hash_t seed) { (void)s; (void)seed; return XXH_OK; }
XXH_errorcode XXH64_update(XXH64_state_t* s, const void* in, size_t len) { (void)s; (void)in; (void)len; return XXH_OK; }
XXH64_hash_t XXH64_digest(const XXH64_state_t* s) { (void)s; return 0; }

#define CMAX 48
#define K 2
static BYTE g_ring[V_SLACK + CMAX + V_SLACK];     /* slack on both sides: the overlap test forms start + size of both ranges */
static ZSTDMT_CCtx g_mt; static ZSTDMT_jobDescription g_jobs[4];

static int disjoint(size_t a, size_t an, size_t b, size_t bn) { return an == 0 || bn == 0 || a + an <= b || b + bn <= a; }

void harness(void)
{
    ZSTDMT_CCtx* const m = &g_mt; BYTE* const ring = g_ring + V_SLACK;
    size_t const C = nondet_size(), T = nondet_size(), ps = nondet_size(), TP = nondet_size();
    unsigned const nJobs = nondet_uint(); unsigned const done = nondet_uint();
    /* unrolled coordinates */
    size_t up[K], us[K], ue[K], posU, base; size_t pos; int i, r;
    VASSUME(C >= 8 && C <= CMAX && T >= 1 && T <= 8 && TP <= 8 && ps <= TP && C >= TP + T * (2 + (TP > 0)) && nJobs <= K && done < 1000);
    for (i = 0; i < K; i++) { up[i] = nondet_size(); us[i] = nondet_size(); ue[i] = nondet_size(); VASSUME(up[i] <= us[i] && us[i] <= ue[i] && ue[i] < 8 * CMAX); }
    posU = nondet_size(); VASSUME(posU < 8 * CMAX); base = 0; pos = 0;
    /* ---- I_r ---- */
    for (i = 0; i < K; i++) if ((unsigned)i < nJobs) {
        VASSUME(ue[i] - us[i] >= 1 && ue[i] - us[i] <= T && us[i] - up[i] <= TP);                         /* a job reads 1..T bytes, prefix <= overlap size */
        VASSUME(up[i] / C == (ue[i] - 1) / C);                                                             /* prefix + source do not cross the ring end */
        if (i > 0) {
            VASSUME(us[i] - up[i] <= ue[i - 1] - us[i - 1]);                                               /* a prefix is (a copy of) a tail of the previous source */
            if (us[i] == ue[i - 1]) VASSUME(up[i] >= us[i - 1]);                                           /* contiguous: prefix is a tail of the previous source */
            else VASSUME(up[i] % C == 0 && up[i] >= ue[i - 1] && up[i] / C == (ue[i - 1] - 1) / C + 1);    /* one wrap: prefix copied to the ring start */
        }
    }
    {   /* ring position: the end of the newest source (pending prefix = its tail), or - if an earlier attempt already moved the prefix to the
         * ring start and was then refused - right after that copy */
        size_t const newestEnd = nJobs ? ue[nJobs - 1] : posU; int const premoved = nondet_bool();
        if (!premoved) {
            VASSUME(posU == newestEnd); if (nJobs) VASSUME(ps <= ue[nJobs - 1] - us[nJobs - 1]); else VASSUME(ps <= posU);
            base = ((posU ? posU - 1 : 0) / C) * C; pos = posU - base;                                    /* 0 <= pos <= C; pos == C at the very end of the ring */
            VASSUME(ps <= pos);
        } else {
            VASSUME(nJobs >= 1);
            base = ((newestEnd - 1) / C + 1) * C; pos = ps; VASSUME(posU == base + ps);
        }
        if (nJobs) VASSUME(posU - up[0] <= C);                                                              /* span */
        VASSUME(pos <= C);
    }
    /* ---- concrete state ---- */
    m->roundBuff.buffer = ring; m->roundBuff.capacity = C; m->roundBuff.pos = pos;
    m->targetSectionSize = T; m->targetPrefixSize = TP;
    m->inBuff.buffer.start = NULL; m->inBuff.buffer.capacity = 0; m->inBuff.filled = 0;
    m->inBuff.prefix.start = ps ? ring + pos - ps : NULL; m->inBuff.prefix.size = ps;
    m->params.ldmParams.enableLdm = ZSTD_ps_disable;
    m->jobs = g_jobs; m->jobIDMask = 3; m->doneJobID = done; m->nextJobID = done + nJobs;
    for (i = 0; i < K; i++) if ((unsigned)i < nJobs) {
        ZSTDMT_jobDescription* const j = &g_jobs[(done + (unsigned)i) & 3];
        j->src.start = ring + us[i] % C; j->src.size = ue[i] - us[i];
        j->prefix.start = (us[i] - up[i]) ? ring + up[i] % C : NULL; j->prefix.size = us[i] - up[i];
        j->consumed = nondet_size(); VASSUME(j->consumed <= j->src.size);
        if (i == 0) VASSUME(j->consumed < j->src.size);                                                    /* the oldest in-flight job is still reading */
    }

    r = ZSTDMT_tryGetInputRange(m);

    if (r) {
        size_t const b = (size_t)((BYTE*)m->inBuff.buffer.start - ring);
        size_t const np = m->inBuff.prefix.size, npOff = np ? (size_t)((const BYTE*)m->inBuff.prefix.start - ring) : b;
        int const moved = (C - pos < T);                 /* the function took its wrap path: prefix copied to the ring start */
        VCHECKM(m->inBuff.buffer.capacity == T && b + T <= C && m->inBuff.filled == 0, "the granted section has the section size and lies inside the ring");
        VCHECKM(np == ps && npOff + np == b, "the section starts right after the (possibly moved) prefix");
        VCHECKM(m->roundBuff.pos == b, "the ring position is the start of the granted section");
        for (i = 0; i < K; i++) if ((unsigned)i < nJobs) {
            ZSTDMT_jobDescription const* const j = &g_jobs[(done + (unsigned)i) & 3];
            if (j->consumed < j->src.size) {
                size_t const so = us[i] % C, sn = ue[i] - us[i], po = up[i] % C, pn = us[i] - up[i];
                VCHECKM(disjoint(b, T, so, sn) && disjoint(b, T, po, pn), "the granted section is disjoint from the source and the prefix of every job that is still reading");
                if (moved) VCHECKM(disjoint(npOff, np, so, sn) && disjoint(npOff, np, po, pn), "the prefix is moved only onto bytes no unfinished job still reads");
            }
        }
        /* inductive part of I_r: span from the oldest in-flight prefix to the end of the granted section */
        if (nJobs) {
            size_t const bU = moved ? base + C + b : base + b;
            VCHECKM(bU + T - up[0] <= C, "span invariant holds again with the granted section included");
        }
        VWITNESS(moved && nJobs == 2);
        VWITNESS(!moved && nJobs == 2 && us[1] != ue[0]);
        VWITNESS(nJobs == 0);
    } else {
        VCHECKM(nJobs >= 1, "the request is refused only while some job is still reading");
        VCHECKM(m->inBuff.buffer.start == NULL, "a refused request leaves no input section behind");
        if (m->roundBuff.pos != pos) {        /* refused after the prefix was moved: the state must still satisfy I_r (second family) */
            VCHECKM(C - pos < T && m->roundBuff.pos == ps && m->inBuff.prefix.size == ps && (ps == 0 || (const BYTE*)m->inBuff.prefix.start == ring), "a refusal after the move leaves the prefix at the ring start and the position right after it");
            VCHECKM(base + C + ps - up[0] <= C, "span invariant holds for the moved prefix");
            for (i = 0; i < K; i++) if ((unsigned)i < nJobs) {
                ZSTDMT_jobDescription const* const j = &g_jobs[(done + (unsigned)i) & 3];
                if (j->consumed < j->src.size) VCHECKM(disjoint(0, ps, us[i] % C, ue[i] - us[i]) && disjoint(0, ps, up[i] % C, us[i] - up[i]), "the prefix was moved only onto bytes no unfinished job still reads");
            }
        }
        VWITNESS(m->roundBuff.pos != pos);
        VWITNESS(nJobs == 1);
    }
}
