/* @harness c11
 * @props C11
 * @tier quick
 * @functions ZSTDMT_serialState_update ZSTDMT_initCStream_internal ZSTDMT_serialState_reset ZSTDMT_computeOverlapSize ZSTDMT_computeTargetJobLog ZSTDMT_setBufferSize
 * @bounds SEQUENTIAL protocol obligations only (schedules are NOT explored): (serial) one execution of the serial section for any job id, any published nextJobID, at most 2 waits, at each wait the shared state is replaced by anything the other workers may have produced (nextJobID only grows); (init) per-frame state after ZSTDMT_initCStream_internal on a context holding ARBITRARY leftovers of an aborted frame versus a fresh context, 1..4 workers, any overlapLog / jobSize, no dictionary, LDM and rsyncable off
 * @assume pthread primitives are a monitor stub (lock ownership checked, waits havoc the protected state, signals/broadcasts logged); the previous frame's jobs have completed (allJobsCompleted = 1) or are waited for by a stub; XXH64 logged; buffer pools are inert objects
 * @outside real interleavings, data races on unmonitored accesses, liveness; LDM serial path; the worker body ZSTDMT_compressionJob
 * @link lib/common/zstd_common.c lib/common/error_private.c
 * @defs -DZSTD_MULTITHREAD
 * @mem native
 * @cbmc --unwind 6 --object-bits 11
 * @timeout 300
 * @memgb 6
 * @instance serial -DH_SERIAL
 * @instance init -DH_INIT
 */
#include "v.h"
#include <string.h>
#include <pthread.h>
#include "compress/zstdmt_compress.c"

/* ---- pthread monitor ---- */
static serialState_t* G; static int held, nWaits, bcSerial, sigSerial; static unsigned obsNext;
static int xxhCalls; static const void* xxhPtr; static size_t xxhLen;
int pthread_mutex_init(pthread_mutex_t* m, const pthread_mutexattr_t* a) { (void)m; (void)a; return 0; }
int pthread_mutex_destroy(pthread_mutex_t* m) { (void)m; return 0; }
int pthread_cond_init(pthread_cond_t* c, const pthread_condattr_t* a) { (void)c; (void)a; return 0; }
int pthread_cond_destroy(pthread_cond_t* c) { (void)c; return 0; }
static void havoc_serial(void) { unsigned const n = nondet_uint(); VASSUME(n >= G->nextJobID); G->nextJobID = n; obsNext = n; }
int pthread_mutex_lock(pthread_mutex_t* m) { if (G && m == &G->mutex) { VCHECKM(!held, "serial mutex not already owned"); held = 1; havoc_serial(); } return 0; }
int pthread_mutex_unlock(pthread_mutex_t* m) { if (G && m == &G->mutex) { VCHECKM(held, "serial mutex owned at unlock"); held = 0; } return 0; }
int pthread_cond_wait(pthread_cond_t* c, pthread_mutex_t* m) { (void)c; (void)m; VCHECKM(held, "condition wait requires the serial mutex"); nWaits++; if (nWaits > 2) VASSUME(0); havoc_serial(); return 0; }
int pthread_cond_signal(pthread_cond_t* c) { if (G && c == &G->cond) sigSerial++; return 0; }
int pthread_cond_broadcast(pthread_cond_t* c) { if (G && c == &G->cond) bcSerial++; return 0; }
XXH_errorcode XXH64_reset(XXH64_state_t* s, XXH64_hash_t seed) { (void)s; (void)seed; return XXH_OK; }
XXH_errorcode XXH64_update(XXH64_state_t* s, const void* in, size_t len) { (void)s; VCHECKM(held, "frame checksum is updated inside the serial section"); xxhCalls++; xxhPtr = in; xxhLen = len; return XXH_OK; }
XXH64_hash_t XXH64_digest(const XXH64_state_t* s) { (void)s; return 0; }
size_t ZSTD_compressBound(size_t s) { return s + (s >> 8) + 64; }
void ZSTD_referenceExternalSequences(ZSTD_CCtx* cctx, rawSeq* seq, size_t nbSeq) { (void)cctx; (void)seq; (void)nbSeq; }
size_t ZSTD_freeCDict(ZSTD_CDict* cdict) { (void)cdict; return 0; }

#ifdef H_SERIAL
static serialState_t g_serial; static unsigned char g_src[8];
void harness(void)
{
    unsigned const jobID = nondet_uint(); range_t src; rawSeqStore_t seqs;
    G = &g_serial;
    G->nextJobID = nondet_uint();
    G->params.ldmParams.enableLdm = ZSTD_ps_disable;
    G->params.fParams.checksumFlag = nondet_bool();
    src.start = g_src; src.size = nondet_size(); VASSUME(src.size <= 8);
    memset(&seqs, 0, sizeof seqs);
    VASSUME(jobID < 0xFFFFFFF0u);
    ZSTDMT_serialState_update(G, NULL, seqs, src, jobID);
    VCHECKM(!held, "serial section left with the mutex released");
    VCHECKM(obsNext >= jobID, "the serial step of job j runs only once every earlier job has passed (nextJobID >= j when it proceeds)");
    if (xxhCalls) {
        VCHECKM(obsNext == jobID && xxhCalls == 1 && xxhPtr == (const void*)g_src && xxhLen == src.size, "the checksum is fed exactly this job's input, once, and only when it is this job's turn");
        VCHECKM(G->params.fParams.checksumFlag && src.size > 0, "checksum only when enabled");
    } else if (obsNext == jobID && G->params.fParams.checksumFlag && src.size > 0) VCHECKM(0, "job's input missing from the checksum");
    VCHECKM(G->nextJobID == obsNext + 1, "turn passed on: nextJobID advanced by exactly one under the mutex");
    VCHECKM(bcSerial >= 1, "wake-up obligation: ALL waiters are woken (they wait for different job ids on one condition variable, a single signal can be consumed by the wrong one)");
    VWITNESS(nWaits == 2 && xxhCalls == 1);
    VWITNESS(nWaits == 0 && obsNext > jobID);
}
#endif

#ifdef H_INIT
void ZSTDMT_waitForAllJobsCompleted_stub(void) {}
static ZSTDMT_bufferPool g_bufPool; static ZSTDMT_seqPool g_seqPool; static ZSTDMT_CCtxPool g_cctxPool;
static void setup(ZSTDMT_CCtx* m, unsigned nbWorkers)
{
    memset(m, 0, sizeof *m);
    m->bufPool = &g_bufPool; m->seqPool = &g_seqPool; m->cctxPool = &g_cctxPool;
    m->params.nbWorkers = nbWorkers; m->allJobsCompleted = 1; m->cMem = ZSTD_defaultCMem;
}
void harness(void)
{
    static ZSTDMT_CCtx A, B; static ZSTD_CCtx_params p; static unsigned char rb[16];
    unsigned const nbWorkers = nondet_uint(); size_t rA, rB;
    VASSUME(nbWorkers >= 1 && nbWorkers <= 4);
    memset(&p, 0, sizeof p);
    p.nbWorkers = (int)nbWorkers; p.cParams.windowLog = 20; p.cParams.strategy = ZSTD_fast; p.cParams.hashLog = 17; p.cParams.chainLog = 16; p.cParams.minMatch = 4; p.cParams.searchLog = 1;
    p.overlapLog = nondet_int(); VASSUME(p.overlapLog >= 0 && p.overlapLog <= 9);
    p.jobSize = nondet_size(); VASSUME(p.jobSize == 0 || (p.jobSize >= ZSTDMT_JOBSIZE_MIN && p.jobSize <= ((size_t)64 << 20)));
    p.ldmParams.enableLdm = ZSTD_ps_disable; p.rsyncable = 0; p.fParams.checksumFlag = nondet_bool();
    setup(&A, nbWorkers); setup(&B, nbWorkers);
    /* A carries whatever an aborted frame left behind */
    A.jobReady = nondet_bool();
    A.inBuff.filled = nondet_size(); A.inBuff.prefix.start = rb; A.inBuff.prefix.size = nondet_size();
    A.roundBuff.pos = nondet_size(); A.doneJobID = nondet_uint(); A.nextJobID = nondet_uint(); A.frameEnded = nondet_bool();
    A.consumed = nondet_u64(); A.produced = nondet_u64(); A.frameContentSize = nondet_u64();
    A.targetPrefixSize = nondet_size(); A.targetSectionSize = nondet_size();
    A.serial.nextJobID = nondet_uint();
    rA = ZSTDMT_initCStream_internal(&A, NULL, 0, ZSTD_dct_auto, NULL, p, 1000000);
    rB = ZSTDMT_initCStream_internal(&B, NULL, 0, ZSTD_dct_auto, NULL, p, 1000000);
    VCHECKM(ZSTD_isError(rA) == ZSTD_isError(rB), "initialisation result does not depend on leftovers");
    if (!ZSTD_isError(rA)) {
        VCHECKM(A.jobReady == B.jobReady, "no half-prepared job of an aborted frame survives into the new frame");
        VCHECKM(A.inBuff.filled == B.inBuff.filled && A.inBuff.prefix.size == B.inBuff.prefix.size && A.inBuff.prefix.start == B.inBuff.prefix.start, "no input or overlap prefix of an aborted frame survives into the new frame");
        VCHECKM(A.roundBuff.pos == B.roundBuff.pos && A.doneJobID == B.doneJobID && A.nextJobID == B.nextJobID && A.frameEnded == B.frameEnded, "job ring and round buffer restart identically");
        VCHECKM(A.consumed == B.consumed && A.produced == B.produced && A.frameContentSize == B.frameContentSize, "progress counters restart identically");
        VCHECKM(A.targetPrefixSize == B.targetPrefixSize && A.targetSectionSize == B.targetSectionSize && A.serial.nextJobID == B.serial.nextJobID, "job geometry and serial order restart identically");
        VWITNESS(A.targetPrefixSize > 0 && nbWorkers == 3);
    }
}
#endif
