/* @harness c20.range_read
 * @props C20
 * @tier quick
 * @functions ZSTD_seekable_decompress ZSTD_seekable_offsetToFrameIndex ZSTD_seekTable_offsetToFrameIndex
 * @bounds archive of NF (= 2) frames, each with 1..3 content bytes (content arbitrary) and 1..2 compressed bytes (step_small, quick: 1..2 and 1); quick (step): ONE range read (offset, length) from an ARBITRARY cached reader state (any current frame, any position inside it, any amount of buffered input) satisfying the reader/decoder invariant = inductive step over read histories; thorough (two_reads): two consecutive reads from a freshly initialised reader; no checksums
 * @assume the zstd decoder behind the reader is a CONTRACT MODEL (ZSTD_decompressStream / ZSTD_DCtx_reset stubs): it knows which frame it is in from the file position at the last reset, consumes any non-empty part of the offered input and/or regenerates any non-empty part of the frame's content that fits the output (always progressing unless it needs input that was not offered), returns 0 exactly at the end of the frame and otherwise a hint within the frame; file access is a position-tracking stub (custom-file interface) that never fails; scratch copy of the reader with SEEKABLE_BUFF_SIZE = 64 instead of 128 KiB
 * @outside real zstd frames inside the archive; checksummed archives (per-frame digest compare: c20.load_untrusted / thorough); more than 2 frames
 * @prep sed contrib/seekable_format/zstdseek_decompress.c zseek_small.c define\s+SEEKABLE_BUFF_SIZE\s+ZSTD_BLOCKSIZE_MAX define\x20SEEKABLE_BUFF_SIZE\x2064
 * @link lib/common/zstd_common.c lib/common/error_private.c
 * @mem loop
 * @cbmc --unwind 8 --unwindset __builtin_memcpy.0:8,ZSTD_seekable_decompress.0:9,ZSTD_seekable_decompress.1:4
 * @timeout 1500
 * @memgb 8
 * @instance step_small backend=cadical cbmc="--unwindset ZSTD_seekable_decompress.0:7,ZSTD_seekable_decompress.1:4" -DH_STEP -DDMAXF=2 -DCMAXF=1
 * @instance step tier=thorough timeout=1500 -DH_STEP
 * @instance two_reads tier=thorough timeout=2400 memgb=14
 */
#include "v.h"
#include <string.h>
#include "zseek_small.c"

#define NF 2
#ifndef DMAXF
#define DMAXF 3
#endif
#ifndef CMAXF
#define CMAXF 2
#endif
static unsigned g_d[NF], g_c[NF];                    /* frame sizes */
static unsigned char g_content[NF * DMAXF];
static unsigned long long g_fpos;                    /* file position (custom file stub) */
/* decoder model state */
static int g_frame; static unsigned g_produced, g_consumed; static int g_fresh;
static unsigned long long g_streamStart;

static int my_read(void* opaque, void* buffer, size_t n) { (void)opaque; (void)buffer; g_fpos += n; return 0; }
static int my_seek(void* opaque, long long offset, int origin) { (void)opaque; VCHECKM(origin == SEEK_SET, "reader seeks with SEEK_SET"); g_fpos = (unsigned long long)offset; return 0; }

size_t ZSTD_DCtx_reset(ZSTD_DCtx* dctx, ZSTD_ResetDirective reset) { (void)dctx; (void)reset; g_fresh = 1; return 0; }
size_t ZSTD_initDStream(ZSTD_DStream* zds) { (void)zds; g_fresh = 1; return 0; }
size_t ZSTD_decompressStream(ZSTD_DStream* zds, ZSTD_outBuffer* output, ZSTD_inBuffer* input)
{
    unsigned cOff = 0, dOff = 0; int i;
    (void)zds;
    if (g_fresh) {
        /* a fresh decoder decodes the frame that starts where the reader positioned the file */
        g_frame = -1;
        for (i = 0; i < NF; i++) { if (g_streamStart == cOff) g_frame = i; cOff += g_c[i]; }
        VCHECKM(g_frame >= 0, "after a reset the reader feeds the decoder from the first byte of a frame");
        if (g_frame < 0) return (size_t)-1;
        g_produced = 0; g_consumed = 0; g_fresh = 0;
    }
    for (i = 0; i < NF; i++) if (i < g_frame) dOff += g_d[i];
    {   size_t const availIn = input->size - input->pos, room = output->size - output->pos;
        unsigned const needIn = g_c[g_frame] - g_consumed, needOut = g_d[g_frame] - g_produced;
        size_t ci = nondet_size(), po = nondet_size(), k;
        VASSUME(ci <= availIn && ci <= needIn);
        /* output only once at least one byte of the frame has been consumed; all of it only once all input is consumed */
        VASSUME(po <= room && po <= needOut && (g_consumed + ci > 0 || po == 0));
        if (g_consumed + ci < g_c[g_frame]) VASSUME(g_produced + po < g_d[g_frame]);
        VASSUME(ci + po > 0 || (availIn == 0 && needIn > 0) || (room == 0 && needIn == 0));       /* progress whenever possible */
        for (k = 0; k < DMAXF; k++) if (k < po) ((unsigned char*)output->dst)[output->pos + k] = g_content[dOff + g_produced + k];
        input->pos += ci; output->pos += po; g_consumed += (unsigned)ci; g_produced += (unsigned)po;
        if (g_consumed == g_c[g_frame] && g_produced == g_d[g_frame]) { g_fresh = 1; g_streamStart += g_c[g_frame]; return 0; }
        return (needIn - ci) ? (needIn - ci) : 1;
    }
}
XXH_errorcode XXH64_reset(XXH64_state_t* s, XXH64_hash_t seed) { (void)s; (void)seed; return XXH_OK; }
XXH_errorcode XXH64_update(XXH64_state_t* s, const void* in, size_t len) { (void)s; (void)in; (void)len; return XXH_OK; }
XXH64_hash_t XXH64_digest(const XXH64_state_t* s) { (void)s; return 0; }

static ZSTD_seekable g_zs; static seekEntry_t g_entries[NF + 1];

/* the reader's seek callback defines where the (fresh) decoder will start */
static int my_seek2(void* opaque, long long offset, int origin) { int const r = my_seek(opaque, offset, origin); g_streamStart = g_fpos; return r; }

void harness(void)
{
    ZSTD_seekable* const zs = &g_zs; unsigned i, total = 0; unsigned long long co = 0;
    for (i = 0; i < NF; i++) { g_d[i] = nondet_uint(); g_c[i] = nondet_uint(); VASSUME(g_d[i] >= 1 && g_d[i] <= DMAXF && g_c[i] >= 1 && g_c[i] <= CMAXF); }
    for (i = 0; i < NF * DMAXF; i++) g_content[i] = nondet_uchar();
    for (i = 0; i < NF; i++) { g_entries[i].cOffset = co; g_entries[i].dOffset = total; co += g_c[i]; total += g_d[i]; }
    g_entries[NF].cOffset = co; g_entries[NF].dOffset = total;
    zs->seekTable.entries = g_entries; zs->seekTable.tableLen = NF; zs->seekTable.checksumFlag = 0;
    zs->src.opaque = NULL; zs->src.read = my_read; zs->src.seek = my_seek2;
    zs->decompressedOffset = (U64)-1; zs->curFrame = (U32)-1;          /* state after ZSTD_seekable_initAdvanced */
    zs->dstream = (ZSTD_DStream*)&g_zs;                                 /* opaque to the stubs */
#ifdef H_STEP
    {   /* ---- ONE read from an ARBITRARY cached reader state satisfying the reader/decoder invariant ---- */
        unsigned char dst2[NF * DMAXF];
        unsigned const off2 = nondet_uint(), len2 = nondet_uint(); size_t r2; unsigned k;
        if (nondet_bool()) {
            unsigned const f = nondet_uint(), produced = nondet_uint(), consumed = nondet_uint(), buffered = nondet_uint();
            VASSUME(f < NF && produced <= g_d[f] && consumed <= g_c[f] && buffered <= g_c[f] - consumed);
            VASSUME(consumed > 0 || produced == 0);                                   /* nothing regenerated before any input */
            VASSUME(!(consumed == g_c[f] && produced == g_d[f]) || 1);
            zs->curFrame = f; zs->decompressedOffset = g_entries[f].dOffset + produced;
            zs->in.src = zs->inBuff; zs->in.size = buffered + (nondet_uint() & 1); zs->in.pos = zs->in.size - buffered;
            g_fpos = g_entries[f].cOffset + consumed + buffered;
            if (consumed == g_c[f] && produced == g_d[f]) { g_fresh = 1; g_streamStart = g_entries[f].cOffset + g_c[f]; VASSUME(buffered == 0); }
            else { g_fresh = 0; g_frame = (int)f; g_produced = produced; g_consumed = consumed; g_streamStart = g_entries[f].cOffset; }
        }
        VASSUME(len2 >= 1 && off2 < total && (unsigned long long)off2 + len2 <= total);
        for (k = 0; k < NF * DMAXF; k++) dst2[k] = 0;
        r2 = ZSTD_seekable_decompress(zs, dst2, len2, off2);
        VCHECKM(r2 == len2, "a range read from any cached reader position returns the requested length");
        for (k = 0; k < NF * DMAXF; k++) if (k < len2) VCHECKM(dst2[k] == g_content[off2 + k], "a range read returns exactly the requested bytes, whatever position an earlier read left cached");
        VWITNESS(zs->curFrame == 1 && off2 == 0 && len2 == total);
        VWITNESS(off2 == total - 1);
    }
#else
    {   unsigned char dst1[NF * DMAXF], dst2[NF * DMAXF];
        unsigned const off1 = nondet_uint(), len1 = nondet_uint(), off2 = nondet_uint(), len2 = nondet_uint();
        size_t r1, r2; unsigned k;
        VASSUME(len1 >= 1 && (unsigned long long)off1 + len1 <= total && off1 < total && len2 >= 1 && off2 < total && (unsigned long long)off2 + len2 <= total);
        r1 = ZSTD_seekable_decompress(zs, dst1, len1, off1);
        VCHECKM(r1 == len1, "first range read returns the requested length");
        for (k = 0; k < NF * DMAXF; k++) if (k < len1) VCHECKM(dst1[k] == g_content[off1 + k], "first range read returns exactly the requested bytes of the content");
        for (k = 0; k < NF * DMAXF; k++) dst2[k] = 0;
        r2 = ZSTD_seekable_decompress(zs, dst2, len2, off2);
        VCHECKM(r2 == len2, "second range read (from any cached position) returns the requested length");
        for (k = 0; k < NF * DMAXF; k++) if (k < len2) VCHECKM(dst2[k] == g_content[off2 + k], "second range read returns exactly the requested bytes, whatever the first read left cached");
        VWITNESS(off2 < off1 + len1 && off2 + len2 > off1 + len1 && off2 > off1);      /* overlaps the cached position */
        VWITNESS(off2 == off1 + len1);                                                   /* continues */
        VWITNESS(off2 + len2 <= off1);                                                   /* goes back */
        VWITNESS(off1 + len1 == total && len1 == total);
    }
#endif
}
