/* @harness c08.centropy_glue
 * @props C08
 * @tier quick
 * @functions ZSTD_loadCEntropy ZSTD_dictNCountRepeat
 * @bounds dictionary of 8..72 arbitrary bytes (16 readable bytes behind it; ranges handed to the parsers and the section size are checked against the dictionary explicitly); the entropy parsers return ANY result allowed by their contracts: consumed length 1..available, any last symbol <= requested, any tableLog <= 15, any normalized counts (every short value), any zero-weight flag
 * @assume HUF_readCTable, FSE_readNCount and FSE_buildCTable_wksp are contract stubs (FSE_readNCount's contract is the post-condition proved by c03.ncount); they check that the range they are handed lies inside the dictionary
 * @outside the table contents themselves (real FSE/HUF construction on dictionary tables); decoder-side twin ZSTD_loadDEntropy (c08.dentropy_glue)
 * @link lib/common/zstd_common.c lib/common/error_private.c
 * @mem native
 * @cbmc --unwind 80
 * @timeout 300
 * @memgb 4
 */
#include "v.h"
#include <string.h>
#include "compress/zstd_compress.c"

#define DMAX 72
#define BACK 16    /* readable bytes behind the dictionary: the function's own end test forms dictPtr+12 beyond a short dictionary, and CBMC cuts paths on out-of-object pointers */
static BYTE g_arena[V_SLACK + DMAX + BACK];
static const BYTE* g_dict; static size_t g_dictSize;
static short g_norm[3][MaxML + 1]; static unsigned g_maxSV[3]; static int g_calls;
static ZSTD_compressedBlockState_t g_bs;
static U64 g_wksp[HUF_WORKSPACE_SIZE / 8 + 1];

static void range_inside_dict(const void* p, size_t n) {
    VCHECKM((const BYTE*)p >= g_dict && (const BYTE*)p + n <= g_dict + g_dictSize, "entropy parser is handed a range inside the dictionary");
}
size_t HUF_readCTable(HUF_CElt* CTable, unsigned* maxSymbolValuePtr, const void* src, size_t srcSize, unsigned* hasZeroWeights)
{
    size_t const r = nondet_size();
    (void)CTable; range_inside_dict(src, srcSize);
    if (nondet_bool()) return ERROR(corruption_detected);
    VASSUME(r >= 1 && r <= srcSize);
    { unsigned const m = nondet_uint(); VASSUME(m <= 255); *maxSymbolValuePtr = m; }
    *hasZeroWeights = nondet_bool();
    return r;
}
size_t FSE_readNCount(short* normalizedCounter, unsigned* maxSVPtr, unsigned* tableLogPtr, const void* headerBuffer, size_t hbSize)
{
    size_t const r = nondet_size(); unsigned i; int const c = g_calls++;
    range_inside_dict(headerBuffer, hbSize);
    if (nondet_bool()) return ERROR(corruption_detected);
    VASSUME(r >= 1 && r <= hbSize);
    { unsigned const m = nondet_uint(); VASSUME(m <= *maxSVPtr); *maxSVPtr = m; }
    { unsigned const t = nondet_uint(); VASSUME(t >= 5 && t <= 15); *tableLogPtr = t; }
    for (i = 0; i <= MaxML; i++) if (i <= *maxSVPtr) { short const v = (short)nondet_ushort(); normalizedCounter[i] = v; if (c < 3) g_norm[c][i] = v; }
    if (c < 3) g_maxSV[c] = *maxSVPtr;
    return r;
}
size_t FSE_buildCTable_wksp(FSE_CTable* ct, const short* normalizedCounter, unsigned maxSymbolValue, unsigned tableLog, void* workSpace, size_t wkspSize)
{
    (void)ct; (void)normalizedCounter; (void)maxSymbolValue; (void)tableLog; (void)workSpace; (void)wkspSize;
    return nondet_bool() ? ERROR(GENERIC) : 0;
}

void harness(void)
{
    size_t const dictSize = nondet_size(); size_t r; unsigned i;
    VASSUME(dictSize >= 8 && dictSize <= DMAX);
    g_dict = g_arena + sizeof g_arena - BACK - dictSize; g_dictSize = dictSize;
    for (i = 0; i < DMAX; i++) g_arena[V_SLACK + i] = nondet_uchar();
    r = ZSTD_loadCEntropy(&g_bs, g_wksp, g_dict, dictSize);
    if (!ZSTD_isError(r)) {
        size_t const content = dictSize - r;
        unsigned const k = nondet_uint();
        VCHECKM(r >= 8 + 1 + 3 + 12 && r <= dictSize, "entropy section lies inside the dictionary");
        VCHECKM(g_calls == 3, "three sequence-table descriptions are read");
        for (i = 0; i < 3; i++) VCHECKM(g_bs.rep[i] != 0 && g_bs.rep[i] <= content, "repeat offsets accepted only if non-zero and within the dictionary content");
        /* tables are declared reusable without re-validation only if EVERY symbol that may be needed has a non-zero probability */
        if (g_bs.entropy.fse.matchlength_repeatMode == FSE_repeat_valid) { VCHECK(g_maxSV[1] >= MaxML); if (k <= MaxML) VCHECKM(g_norm[1][k] != 0, "match-length table marked valid only if every code has non-zero probability"); }
        if (g_bs.entropy.fse.litlength_repeatMode == FSE_repeat_valid) { VCHECK(g_maxSV[2] >= MaxLL); if (k <= MaxLL) VCHECKM(g_norm[2][k] != 0, "literal-length table marked valid only if every code has non-zero probability"); }
        if (g_bs.entropy.fse.offcode_repeatMode == FSE_repeat_valid) {
            /* largest offset the first block can need: dictionary content + one full block */
            U32 const maxOffset = (U32)content + (128 << 10);
            U32 need = 31; while (need > 0 && !((maxOffset >> need) & 1)) need--;     /* floor(log2(maxOffset)) */
            if (need > MaxOff) need = MaxOff;
            VCHECK(g_maxSV[0] >= need);
            if (k <= need) VCHECKM(g_norm[0][k] != 0, "offset-code table marked valid only if every code up to the largest needed offset has non-zero probability");
        }
        VCHECKM(g_bs.entropy.fse.matchlength_repeatMode != FSE_repeat_none && g_bs.entropy.fse.offcode_repeatMode != FSE_repeat_none, "dictionary tables are at least offered for checked reuse");
        VWITNESS(g_bs.entropy.fse.offcode_repeatMode == FSE_repeat_valid);
        VWITNESS(g_bs.entropy.fse.offcode_repeatMode == FSE_repeat_check);
        VWITNESS(g_bs.entropy.fse.litlength_repeatMode == FSE_repeat_valid && g_bs.entropy.huf.repeatMode == HUF_repeat_valid);
    }
    VWITNESS(ZSTD_isError(r) && g_calls == 3);
}
