/* @harness c13.mtpools
 * @props C13
 * @tier quick
 * @functions ZSTDMT_createCCtx_advanced_internal ZSTDMT_freeCCtx ZSTDMT_createJobsTable ZSTDMT_freeJobsTable ZSTDMT_releaseAllJobResources ZSTDMT_createBufferPool ZSTDMT_freeBufferPool ZSTDMT_expandBufferPool ZSTDMT_getBuffer ZSTDMT_releaseBuffer ZSTDMT_createCCtxPool ZSTDMT_freeCCtxPool ZSTDMT_expandCCtxPool ZSTDMT_getCCtx ZSTDMT_releaseCCtx
 * @bounds the multithreading layer's buffer pool and compression-context pool under allocation failure: the index of the failing allocation is a SYMBOLIC variable (any allocation of the scenario, or none); scenario per instance - buf: create a pool for 1 or 2 workers (one instance each), take 0..2 buffers, give them back, expand the pool, free it; cctx: create a context pool for 1 or 2 workers, take a context, give it back, expand, free; mtctx: create the whole multithreading context (jobs table + the three pools) on a caller-provided thread pool, free it
 * @bounds decided: a constructor that meets an allocation failure returns NULL after returning EVERY block it had obtained to the caller's allocator (counting ZSTD_customMem with a live-pointer set: a block released through anything but the caller's free, twice, or never, is a violation); a failed buffer request yields the null buffer; after the normal sequence nothing is live
 * @assume pthread primitives are no-op stubs (sequential); ZSTD_createCCtx_advanced / ZSTD_freeCCtx are modelled as one allocation / one release through the same allocator (the context's own failure paths are c13.cwksp's subject)
 * @outside interleavings; pthread initialisation failures (not allocation failures)
 * @link lib/common/zstd_common.c lib/common/error_private.c
 * @defs -DZSTD_MULTITHREAD
 * @mem loop
 * @cbmc --unwind 12 --object-bits 11 --unwindset __builtin_memset.0:200,__builtin_memcpy.0:40
 * @timeout 600
 * @memgb 8
 * @instance buf_w2 -DH_BUF -DNW=2
 * @instance cctx_w2 -DH_CCTX -DNW=2
 * @instance buf_w1 -DH_BUF -DNW=1
 * @instance mtctx_w2 mem=native -DH_MTCTX -DNW=2
 * @instance cctx_w1 -DH_CCTX -DNW=1
 */
#include "v.h"
#include <string.h>
#include <pthread.h>
#include "alloc_counting.h"
#include "compress/zstdmt_compress.c"

int pthread_mutex_init(pthread_mutex_t* m, const pthread_mutexattr_t* a) { (void)m; (void)a; return 0; }
int pthread_mutex_destroy(pthread_mutex_t* m) { (void)m; return 0; }
int pthread_cond_init(pthread_cond_t* c, const pthread_condattr_t* a) { (void)c; (void)a; return 0; }
int pthread_cond_destroy(pthread_cond_t* c) { (void)c; return 0; }
int pthread_mutex_lock(pthread_mutex_t* m) { (void)m; return 0; }
int pthread_mutex_unlock(pthread_mutex_t* m) { (void)m; return 0; }
int pthread_cond_wait(pthread_cond_t* c, pthread_mutex_t* m) { (void)c; (void)m; return 0; }
int pthread_cond_signal(pthread_cond_t* c) { (void)c; return 0; }
int pthread_cond_broadcast(pthread_cond_t* c) { (void)c; return 0; }
size_t ZSTD_compressBound(size_t s) { return s + (s >> 8) + 64; }
void ZSTD_referenceExternalSequences(ZSTD_CCtx* cctx, rawSeq* seq, size_t nbSeq) { (void)cctx; (void)seq; (void)nbSeq; }
size_t ZSTD_freeCDict(ZSTD_CDict* cdict) { (void)cdict; return 0; }
XXH_errorcode XXH64_reset(XXH64_state_t* s, XXH64_hash_t seed) { (void)s; (void)seed; return XXH_OK; }
XXH_errorcode XXH64_update(XXH64_state_t* s, const void* in, size_t len) { (void)s; (void)in; (void)len; return XXH_OK; }
XXH64_hash_t XXH64_digest(const XXH64_state_t* s) { (void)s; return 0; }
/* a compression context = one block from the same allocator */
ZSTD_CCtx* ZSTD_createCCtx_advanced(ZSTD_customMem customMem) { return (ZSTD_CCtx*)ZSTD_customMalloc(16, customMem); }
size_t ZSTD_freeCCtx(ZSTD_CCtx* cctx) { ZSTD_customMem const cm = VC_MEM; ZSTD_customFree(cctx, cm); return 0; }
size_t ZSTD_sizeof_CCtx(const ZSTD_CCtx* cctx) { (void)cctx; return 16; }
size_t ZSTD_CCtxParams_setParameter(ZSTD_CCtx_params* params, ZSTD_cParameter param, int value) { if (param == ZSTD_c_nbWorkers) params->nbWorkers = value; return 0; }

void harness(void)
{
    ZSTD_customMem const cm = VC_MEM; unsigned const nbWorkers = NW;      /* concrete per instance: allocation sizes stay concrete */
    vc_fail_at = nondet_uint();
#ifdef H_BUF
    {   ZSTDMT_bufferPool* p = ZSTDMT_createBufferPool(BUF_POOL_MAX_NB_BUFFERS(nbWorkers), cm);
        if (p == NULL) { VCHECKM(vc_failed >= 1, "the constructor fails only when an allocation failed"); VC_NOLEAK(); VWITNESS(vc_count == 2); return; }
        ZSTDMT_setBufferSize(p, 24);
        {   buffer_t const a = ZSTDMT_getBuffer(p); buffer_t const b = nondet_bool() ? ZSTDMT_getBuffer(p) : g_nullBuffer;
            VCHECKM((a.start == NULL) == (a.capacity == 0) && (a.start == NULL || a.capacity >= 24), "a buffer request yields a buffer of at least the pool's size, or the null buffer");
            ZSTDMT_releaseBuffer(p, a); ZSTDMT_releaseBuffer(p, b);
            {   buffer_t const c = ZSTDMT_getBuffer(p);            /* reuse of a stored buffer */
                ZSTDMT_releaseBuffer(p, c);
            }
        }
        p = ZSTDMT_expandBufferPool(p, BUF_POOL_MAX_NB_BUFFERS(nbWorkers + 1));
        if (p == NULL) { VCHECKM(vc_failed >= 1, "expansion fails only when an allocation failed"); VC_NOLEAK(); VWITNESS(1); return; }
        ZSTDMT_freeBufferPool(p);
        VC_NOLEAK();
        VWITNESS(vc_failed == 0);
        VWITNESS(vc_failed == 1);
    }
#elif defined(H_MTCTX)
    {   /* the whole multithreading context on a caller-provided thread pool: jobs table, buffer pool, context pool, sequence pool */
        static int poolToken; ZSTDMT_CCtx* const m = ZSTDMT_createCCtx_advanced(nbWorkers, cm, (ZSTD_threadPool*)&poolToken);
        if (m == NULL) { VCHECKM(vc_failed >= 1, "the constructor fails only when an allocation failed"); VC_NOLEAK(); VWITNESS(vc_fail_at == 2); VWITNESS(vc_fail_at == 5); return; }
        VCHECKM(vc_failed == 0 && m->jobs != NULL && m->bufPool != NULL && m->cctxPool != NULL && m->seqPool != NULL, "a context is returned only when every part was allocated");
        ZSTDMT_freeCCtx(m);
        VC_NOLEAK();
        VWITNESS(1);
    }
#else
    {   ZSTDMT_CCtxPool* p = ZSTDMT_createCCtxPool((int)nbWorkers, cm);
        if (p == NULL) { VCHECKM(vc_failed >= 1, "the constructor fails only when an allocation failed"); VC_NOLEAK(); VWITNESS(vc_count == 2); VWITNESS(vc_count == 3); return; }
        {   ZSTD_CCtx* const c1 = ZSTDMT_getCCtx(p); ZSTD_CCtx* const c2 = nondet_bool() ? ZSTDMT_getCCtx(p) : NULL;
            ZSTDMT_releaseCCtx(p, c1); ZSTDMT_releaseCCtx(p, c2);
        }
        p = ZSTDMT_expandCCtxPool(p, (int)nbWorkers + 1);
        if (p == NULL) { VCHECKM(vc_failed >= 1, "expansion fails only when an allocation failed"); VC_NOLEAK(); VWITNESS(1); return; }
        ZSTDMT_freeCCtxPool(p);
        VC_NOLEAK();
        VWITNESS(vc_failed == 0);
        VWITNESS(vc_failed == 1);
    }
#endif
}
