/* @harness c02.cstream_step
 * @props C02 C10 C06
 * @tier quick
 * @functions ZSTD_compressStream_generic ZSTD_nextInputSizeHint ZSTD_limitCopy ZSTD_compressBound
 * @bounds ONE call of the compression stream state machine from an ARBITRARY state satisfying the stream invariant I_c (inductive step => call histories of any length): stage load/flush, all buffer cursors, buffered or stable input, buffered or stable output, any directive; block size 1..BS (64 quick / 4096 thorough), window 1..4 blocks; new user input per call 0..(one block + 3 bytes) (a longer input only adds identical block cycles), user output capacity 0..(bound of a block + 16); any previously buffered input, any partially flushed block
 * @assume ZSTD_compressContinue_public / ZSTD_compressEnd_public are contract stubs: range-checked (dst writable for the announced capacity, src readable), fail or return any size <= capacity, are told apart (end = last block) and logged; ZSTD_CCtx_reset(session) has its real effect on the two fields it touches; the function text is re-extracted from /repo at every run; copies are range-checked only (check-only model)
 * @assume I_c: inToCompress <= inBuffPos <= inBuffTarget <= inBuffSize, inBuffTarget = inToCompress + blockSize, inBuffSize = window + blockSize, outBuffSize >= compressBound(blockSize) + 1, flushed <= content <= outBuffSize, stage flush <=> unflushed content exists, frameEnded only while its last block is being flushed (established by ZSTD_CCtx_init_compressStream2 / ZSTD_resetCCtx_internal and re-proved here as post-condition)
 * @outside the block compressor (C01/C05/C06 harnesses); multithreaded streaming
 * @prep extract lib/compress/zstd_compress.c ZSTD_compressBound,ZSTD_nextInputSizeHint,ZSTD_compressStream_generic cstream_generic.inc
 * @link lib/common/zstd_common.c lib/common/error_private.c
 * @mem check
 * @cbmc --unwind 8
 * @timeout 400
 * @memgb 8
 * @instance bb_cont backend=cadical -DIN_STABLE=0 -DOUT_STABLE=0 -DDIR=0
 * @instance bb_flush backend=cadical -DIN_STABLE=0 -DOUT_STABLE=0 -DDIR=1
 * @instance bb_end backend=cadical -DIN_STABLE=0 -DOUT_STABLE=0 -DDIR=2
 * @instance si_cont backend=cadical -DIN_STABLE=1 -DOUT_STABLE=0 -DDIR=0
 * @instance si_flush backend=cadical -DIN_STABLE=1 -DOUT_STABLE=0 -DDIR=1
 * @instance si_end backend=cadical -DIN_STABLE=1 -DOUT_STABLE=0 -DDIR=2
 * @instance so_cont backend=cadical -DIN_STABLE=0 -DOUT_STABLE=1 -DDIR=0
 * @instance so_flush backend=cadical -DIN_STABLE=0 -DOUT_STABLE=1 -DDIR=1
 * @instance so_end backend=cadical -DIN_STABLE=0 -DOUT_STABLE=1 -DDIR=2
 */
#include "v.h"
#include <string.h>
#include <stdlib.h>
#include "compress/zstd_compress_internal.h"

#ifndef BS
#define BS 64
#endif
/* ---- ghost log of what is handed to the block compressor ---- */
static unsigned long long g_fed; static int g_calls, g_endCalls, g_resets; static size_t g_lastCSize; static const void* g_lastDst;
static const char* g_inBuffBase; static const char* g_userIn; static size_t g_userInSize;

static size_t block_stub(ZSTD_CCtx* cctx, void* dst, size_t dstCapacity, const void* src, size_t srcSize, int end)
{
    size_t r = nondet_size();
    VCHECKM(dstCapacity == 0 || V_W_OK(dst, dstCapacity), "block compressor is given a writable destination of the announced capacity");
    VCHECKM(srcSize == 0 || V_R_OK(src, srcSize), "block compressor is given a readable source of the announced size");
    g_calls++; g_endCalls += end; g_fed += srcSize; g_lastDst = dst;
    if (nondet_bool()) return ERROR(dstSize_tooSmall);
    VASSUME(r <= dstCapacity);
    g_lastCSize = r;
    return r;
}
size_t ZSTD_compressContinue_public(ZSTD_CCtx* cctx, void* dst, size_t dstCapacity, const void* src, size_t srcSize) { return block_stub(cctx, dst, dstCapacity, src, srcSize, 0); }
size_t ZSTD_compressEnd_public(ZSTD_CCtx* cctx, void* dst, size_t dstCapacity, const void* src, size_t srcSize) { return block_stub(cctx, dst, dstCapacity, src, srcSize, 1); }
size_t ZSTD_CCtx_reset(ZSTD_CCtx* cctx, ZSTD_ResetDirective reset) { (void)reset; g_resets++; cctx->streamStage = zcss_init; cctx->pledgedSrcSizePlusOne = 0; return 0; }
#include "cstream_generic.inc"

static ZSTD_CCtx g_cctx;

static int inv(const ZSTD_CCtx* z)
{
    size_t const bound = ZSTD_compressBound(z->blockSize);
    if (!(z->blockSize >= 1 && z->blockSize <= BS)) return 0;
    if (!IN_STABLE) {
        if (!(z->inBuffSize >= 2 * z->blockSize && z->inBuffSize <= 5 * z->blockSize)) return 0;
        if (!(z->inToCompress <= z->inBuffPos && z->inBuffPos <= z->inBuffTarget && z->inBuffTarget <= z->inBuffSize)) return 0;
        if (!(z->inBuffTarget == z->inToCompress + z->blockSize)) return 0;
        if (z->stableIn_notConsumed != 0) return 0;
    } else {
        if (z->stableIn_notConsumed >= z->blockSize) return 0;
    }
    if (!OUT_STABLE) {
        if (!(z->outBuffSize >= bound + 1 && z->outBuffSize <= bound + 8)) return 0;
        if (!(z->outBuffFlushedSize <= z->outBuffContentSize && z->outBuffContentSize <= z->outBuffSize)) return 0;
        if (z->streamStage == zcss_flush) { if (!(z->outBuffFlushedSize < z->outBuffContentSize)) return 0; }
        else if (!(z->outBuffContentSize == 0 && z->outBuffFlushedSize == 0)) return 0;
    } else {
        if (z->streamStage == zcss_flush) return 0;
    }
    if (z->streamStage == zcss_load && z->frameEnded) return 0;
    return z->streamStage == zcss_load || z->streamStage == zcss_flush;
}

void harness(void)
{
    ZSTD_CCtx* const z = &g_cctx; ZSTD_inBuffer in; ZSTD_outBuffer out; size_t r;
    unsigned const dir = DIR;       /* directive concrete per instance: 9 instances (3 buffer-mode pairs x 3 directives) run in parallel */
    z->appliedParams.inBufferMode = IN_STABLE ? ZSTD_bm_stable : ZSTD_bm_buffered;
    z->appliedParams.outBufferMode = OUT_STABLE ? ZSTD_bm_stable : ZSTD_bm_buffered;
    z->blockSize = nondet_size();
    z->inBuffSize = nondet_size(); z->inToCompress = nondet_size(); z->inBuffPos = nondet_size(); z->inBuffTarget = nondet_size();
    z->outBuffSize = nondet_size(); z->outBuffContentSize = nondet_size(); z->outBuffFlushedSize = nondet_size();
    z->stableIn_notConsumed = nondet_size(); z->frameEnded = nondet_bool();
    { unsigned const st = nondet_uint(); VASSUME(st == zcss_load || st == zcss_flush); z->streamStage = (ZSTD_cStreamStage)st; }
    VASSUME(inv(z));
    if (!IN_STABLE) { z->inBuff = (char*)malloc(z->inBuffSize); VASSUME(z->inBuff); g_inBuffBase = z->inBuff; }
    if (!OUT_STABLE) { z->outBuff = (char*)malloc(z->outBuffSize); VASSUME(z->outBuff); }
    in.size = nondet_size(); in.pos = nondet_size(); out.size = nondet_size(); out.pos = nondet_size();
    VASSUME(in.pos <= in.size && in.size <= 2 * (size_t)BS + 3 && in.size - in.pos <= z->blockSize + 3 && out.pos <= out.size && out.size <= ZSTD_compressBound(BS) + 16);
    VASSUME(in.pos >= z->stableIn_notConsumed);
    in.src = malloc(in.size ? in.size : 1); out.dst = malloc(out.size ? out.size : 1); VASSUME(in.src && out.dst);
    g_userIn = (const char*)in.src; g_userInSize = in.size;
    {   size_t const pending0 = IN_STABLE ? z->stableIn_notConsumed : z->inBuffPos - z->inToCompress;
        size_t const inPos0 = in.pos, outPos0 = out.pos, toFlush0 = OUT_STABLE ? 0 : z->outBuffContentSize - z->outBuffFlushedSize;
        int const ended0 = (int)z->frameEnded;
        r = ZSTD_compressStream_generic(z, &out, &in, (ZSTD_EndDirective)dir);
        VCHECKM(in.pos <= in.size && out.pos <= out.size, "cursors stay inside the caller's buffers");
        if (!ZSTD_isError(r)) {
            size_t const pending1 = IN_STABLE ? z->stableIn_notConsumed : z->inBuffPos - z->inToCompress;
            int const done = (g_resets > 0);
            VCHECKM(out.pos >= outPos0, "output cursor never moves back");
            if (!done) VCHECKM(inv(z), "stream invariant preserved (so the next call starts from a state covered by this harness)");
            else VCHECKM(z->streamStage == zcss_init && g_resets == 1, "a completed frame leaves the context in the init stage, reset once");
            /* conservation of input bytes: what the caller gave is either still pending or was handed to the block compressor, once */
            if (!IN_STABLE) { if (!done) VCHECKM(pending0 + (in.pos - inPos0) == g_fed + pending1, "every consumed input byte is either still buffered or was handed to the block compressor exactly once"); }
            else VCHECKM((inPos0 - pending0) + g_fed + pending1 == in.pos, "stable input: bytes before the cursor are either compressed or counted as deferred, none skipped");
            if (done) VCHECKM(g_endCalls == 1 || ended0, "a frame is completed only by the end-of-frame block");
            if (g_endCalls) VCHECKM(dir == ZSTD_e_end && in.pos == in.size, "the end-of-frame block is produced only on an end directive, after all input");
            /* flush completeness */
            if (dir != ZSTD_e_continue && !done && (OUT_STABLE || z->outBuffContentSize == z->outBuffFlushedSize) && out.pos < out.size)
                VCHECKM(pending1 == 0 && in.pos == in.size, "flush/end with room left and nothing more to deliver => no consumed input is left uncompressed");
            /* progress */
            if ((inPos0 - (IN_STABLE ? pending0 : 0)) < in.size && outPos0 < out.size)
                VCHECKM(in.pos > inPos0 - (IN_STABLE ? pending0 : 0) || out.pos > outPos0 || done, "with consumable input and writable output a call consumes or produces something");
            if (toFlush0 && outPos0 < out.size) VCHECKM(out.pos > outPos0, "pending compressed bytes are delivered as soon as there is room");
            VWITNESS(g_calls == 2);
#if !OUT_STABLE
#  if DIR == 2
            VWITNESS(done && toFlush0 > 0);
#  endif
            VWITNESS(!done && z->streamStage == zcss_flush);
#endif
#if DIR == 1
            VWITNESS(g_calls == 1 && out.pos > outPos0);
#endif
        }
        VWITNESS(ZSTD_isError(r));
    }
}
