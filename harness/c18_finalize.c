/* @harness c18.finalize
 * @props C18
 * @tier quick
 * @functions ZDICT_finalizeDictionary ZDICT_maxRep ZDICT_getDictID ZDICT_isError
 * @bounds dictionary buffer capacity: every value 0..4096 (exactly-sized object); custom content size: every value 0..4096 (exactly-sized object); requested dictID: every 32-bit value (0 = derive from content); entropy section size: ANY value the analyser may return (<= the room it was given), or an error; content hash: any 64-bit value
 * @assume ZDICT_analyzeEntropy is a contract stub (scratch copy of zdict.c with only its definition renamed): error, or any size in 12..room whose last 12 bytes are the three start repeat offsets {1,4,8} (as the real function writes them, zdict.c:831-833); XXH64 uninterpreted; memmove/memcpy/memset of the function are ghost operations (range-checked, logged; coverage of the output answered by replaying the log)
 * @outside NARROW CLAIM: segment selection (COVER / fastCover), suffix sorting, entropy statistics, optimiser threads, determinism and "every sample round-trips" are not decided
 * @prep rename lib/dictBuilder/zdict.c ZDICT_analyzeEntropy ZDICT_analyzeEntropy_REAL zdict_stub.c
 * @link lib/common/zstd_common.c lib/common/error_private.c
 * @mem loop
 * @cbmc --unwind 6 --unwindset __builtin_memcpy.0:10,__builtin_memset.0:10
 * @timeout 300
 * @memgb 4
 */
#include "v.h"
#include <string.h>
#include <stdlib.h>
#include <stdio.h>
#include <time.h>

/* ---- ghost libc memory operations used by ZDICT_finalizeDictionary ---- */
enum { OP_MOVE = 1, OP_CPY = 2, OP_SET = 3 };
typedef struct { int kind; const unsigned char* d; const unsigned char* s; size_t n; } vop_t;
static vop_t g_ops[4]; static int g_nops;
static void* v_gmove(int kind, void* d, const void* s, size_t n) {
    if (n) { VCHECKM(V_W_OK(d, n), "output range writable (inside the caller's dictionary buffer)");
             if (s) VCHECKM(V_R_OK(s, n), "source range readable");
             VCHECKM(g_nops < 4, "ghost log large enough");
             if (g_nops < 4) { g_ops[g_nops].kind = kind; g_ops[g_nops].d = (const unsigned char*)d; g_ops[g_nops].s = (const unsigned char*)s; g_ops[g_nops].n = n; g_nops++; } }
    return d; }
#define memmove(d,s,n) v_gmove(OP_MOVE,(d),(s),(n))
#define memcpy(d,s,n)  v_gmove(OP_CPY,(d),(s),(n))
#define memset(d,c,n)  v_gmove(OP_SET,(d),NULL,(n))

#include "zstd_internal.h"
static size_t g_eSize; static int g_eCalled;
static size_t ZDICT_analyzeEntropy(void* dstBuffer, size_t maxDstSize, int compressionLevel, const void* srcBuffer, const size_t* fileSizes, unsigned nbFiles,
                                   const void* dictBuffer, size_t dictBufferSize, unsigned notificationLevel);
#include "zdict_stub.c"
static size_t ZDICT_analyzeEntropy(void* dstBuffer, size_t maxDstSize, int compressionLevel, const void* srcBuffer, const size_t* fileSizes, unsigned nbFiles,
                                   const void* dictBuffer, size_t dictBufferSize, unsigned notificationLevel)
{
    size_t const r = nondet_size();
    (void)dstBuffer; (void)compressionLevel; (void)srcBuffer; (void)fileSizes; (void)nbFiles; (void)dictBuffer; (void)dictBufferSize; (void)notificationLevel;
    g_eCalled++;
    if (nondet_bool()) return ERROR(dstSize_tooSmall);
    VASSUME(r >= 12 && r <= maxDstSize);
    g_eSize = r;
    return r;
}
XXH64_hash_t XXH64(const void* input, size_t length, XXH64_hash_t seed) { (void)input; (void)length; (void)seed; return nondet_u64(); }

void harness(void)
{
    size_t const cap = nondet_size(), contentSize = nondet_size();
    ZDICT_params_t params; unsigned char* dict; unsigned char* content; size_t r;
    VASSUME(cap <= 4096 && contentSize <= 4096);
    dict = (unsigned char*)malloc(cap ? cap : 1); content = (unsigned char*)malloc(contentSize ? contentSize : 1); VASSUME(dict && content);
    params.compressionLevel = 3; params.notificationLevel = 0; params.dictID = nondet_uint();
    r = ZDICT_finalizeDictionary(dict, cap, content, contentSize, NULL, NULL, 0, params);
    if (!ZDICT_isError(r)) {
        size_t const hSize = 8 + g_eSize;
        size_t const j = nondet_size();
        VCHECKM(r <= cap, "dictionary written within the given capacity");
        VCHECKM(cap >= ZDICT_DICTSIZE_MIN, "capacities below the documented minimum are refused");
        VCHECKM(r >= hSize + 8, "content (with padding) is at least as large as the largest start repeat offset (8): the loaders refuse a dictionary whose repeat offsets exceed its content");
        VCHECKM(r - hSize <= (contentSize > 8 ? contentSize : 8), "no more content than given (plus padding up to 8 bytes)");
        /* every byte of the result was written by exactly the header / padding / content operations */
        if (j < r) {
            int k, covered = 0;
            for (k = 0; k < 4; k++) if (k < g_nops && dict + j >= g_ops[k].d && dict + j < g_ops[k].d + g_ops[k].n) covered++;
            VCHECKM(covered == 1, "every byte of the returned dictionary is produced by exactly one of header / padding / content");
        }
        VWITNESS(contentSize == 0 && r == hSize + 8);
        VWITNESS(contentSize == 3);
        VWITNESS(contentSize == 4000 && r == cap);
    } else {
        VCHECKM(g_nops == 0, "a refused call writes nothing into the caller's buffer");
    }
    VWITNESS(ZDICT_isError(r) && g_eCalled == 1 && cap >= 256);
}
