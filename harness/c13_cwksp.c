/* @harness c13.cwksp
 * @props C13 C14
 * @tier thorough
 * @functions ZSTD_resetCCtx_internal ZSTD_reset_matchState ZSTD_cwksp_create ZSTD_cwksp_free ZSTD_cwksp_reserve_object ZSTD_cwksp_reserve_table ZSTD_cwksp_reserve_aligned64 ZSTD_cwksp_reserve_buffer ZSTD_cwksp_clear ZSTD_cwksp_clean_tables ZSTD_estimateCCtxSize_usingCCtxParams_internal ZSTD_freeCCtx
 * @bounds registered instance resize_fail: a context that already owns a (too small) workspace from an earlier use is reset for concrete small parameters (windowLog 10, hash/chain log 6, minMatch 4, strategy fast, block size 1 KiB; buffered or not) and the allocation of the bigger workspace FAILS: the context must report the error, keep no pointer to the memory it returned, and be releasable without returning any block twice
 * @bounds not registered (no verdict: the successful path through the table reservations exceeds 14 GB even for these parameters): symbolic failing-allocation index over the whole reset, estimate >= reservation
 * @assume counting ZSTD_customMem with live-pointer set; table clears (> 96 bytes) are range-checked and havocked (split model), small struct resets are exact
 * @outside LDM and row-hash tables, large logs (C14 sizing harness), MT contexts
 * @link lib/common/zstd_common.c lib/common/error_private.c lib/compress/zstd_ldm.c
 * @mem split
 * @defs -DV_SPLIT=96
 * @cbmc --unwind 14 --unwindset __builtin_memset.0:98,__builtin_memcpy.0:98,__builtin_memmove.0:98,__builtin_memmove.1:98
 * @timeout 1800
 * @memgb 14
 * @instance resize_fail tier=quick timeout=600 -DH_STRATEGY=ZSTD_fast -DH_FAILONLY=1
 */
#include "v.h"
#include "alloc_counting.h"
#include "compress/zstd_compress.c"
XXH_errorcode XXH64_reset(XXH64_state_t* s, XXH64_hash_t seed) { (void)s; (void)seed; return XXH_OK; }

static ZSTD_CCtx g_cctx;
#ifndef H_FAILONLY
#define H_FAILONLY 0
#endif

void harness(void)
{
    ZSTD_CCtx* const zc = &g_cctx;
    ZSTD_customMem const cm = VC_MEM;
    static ZSTD_CCtx_params params;
#if H_FAILONLY
    int const hadWorkspace = 1;
#else
    int const hadWorkspace = nondet_bool();
#endif
    int const buffered = nondet_bool();
    size_t r;
    zc->customMem = cm;
    params.compressionLevel = 1; params.fParams.contentSizeFlag = 1;   /* = ZSTD_CCtxParams_init(&params, 1) on the zero-initialised static (its memset would be havocked by the split model) */
    params.cParams.windowLog = 10;
    params.cParams.hashLog = 6;
    params.cParams.chainLog = 6;
    params.cParams.searchLog = 1;
    params.cParams.minMatch = 4;
    params.cParams.targetLength = 0;
    params.cParams.strategy = H_STRATEGY;
    params.useRowMatchFinder = ZSTD_ps_disable; params.useBlockSplitter = ZSTD_ps_disable; params.ldmParams.enableLdm = ZSTD_ps_disable;
    params.maxBlockSize = 1024; params.inBufferMode = ZSTD_bm_buffered; params.outBufferMode = ZSTD_bm_buffered;
    if (hadWorkspace) {           /* context reused after a smaller job: owns a workspace that is too small now */
        VCHECK(!ZSTD_isError(ZSTD_cwksp_create(&zc->workspace, 512, cm)));
    }
    vc_count = 0; vc_fail_at = nondet_uint();
#if H_FAILONLY
    /* quick instance: only the failing-resize history (context already owns a too-small workspace, the allocation of
     * the bigger one fails); the context must then be releasable without returning any block twice. The successful
     * continuation (table reservation and clearing) is the thorough instances' subject. */
    vc_fail_at = 1;      /* concrete, so that symbolic execution itself prunes the successful continuation */
    r = ZSTD_resetCCtx_internal(zc, &params, 100, 0, ZSTDcrp_makeClean, buffered ? ZSTDb_buffered : ZSTDb_not_buffered);
    VCHECKM(ZSTD_isError(r) && vc_failed == 1, "the resize reports the allocation failure");
    VCHECKM(zc->workspace.workspace == NULL && vc_nlive == 0, "after a failed resize the context does not keep a pointer to memory it already returned");
    VCHECKM(ZSTD_sizeof_CCtx(zc) == sizeof(*zc), "a context whose workspace was released reports no workspace bytes");
    ZSTD_freeCCtxContent(zc);
    VC_NOLEAK();
    VWITNESS(buffered);
    VWITNESS(!buffered);
#else
    r = ZSTD_resetCCtx_internal(zc, &params, 100, 0, ZSTDcrp_makeClean, buffered ? ZSTDb_buffered : ZSTDb_not_buffered);
    if (ZSTD_isError(r)) {
        VCHECKM(vc_failed == 1, "reset fails only because an allocation failed");
        VCHECKM(zc->workspace.workspace == NULL || vc_nlive == 1, "after a failed resize the context does not keep a pointer to memory it already returned");
        /* the same context completes the same operation once memory is available */
        vc_fail_at = 0;
        r = ZSTD_resetCCtx_internal(zc, &params, 100, 0, ZSTDcrp_makeClean, buffered ? ZSTDb_buffered : ZSTDb_not_buffered);
        VCHECKM(!ZSTD_isError(r), "after an allocation failure the same context succeeds once memory is available");
        VWITNESS(hadWorkspace);
        VWITNESS(!hadWorkspace);
    }
    VCHECKM(!ZSTD_cwksp_reserve_failed(&zc->workspace), "every reservation fitted in the workspace sized by the estimate");
    VCHECKM(ZSTD_sizeof_CCtx(zc) >= vc_totalLive, "ZSTD_sizeof_CCtx never under-reports what the context holds");
    VCHECKM(vc_nlive == 1, "exactly one workspace is live");
    ZSTD_freeCCtxContent(zc);
    VC_NOLEAK();
    VWITNESS(vc_failed == 0 && hadWorkspace);
    VWITNESS(buffered);
#endif
}
