/* @harness c13.cwksp
 * @props C13 C14
 * @tier thorough
 * @functions ZSTD_resetCCtx_internal ZSTD_reset_matchState ZSTD_cwksp_create ZSTD_cwksp_free ZSTD_cwksp_reserve_object ZSTD_cwksp_reserve_table ZSTD_cwksp_reserve_aligned64 ZSTD_cwksp_reserve_buffer ZSTD_cwksp_clear ZSTD_cwksp_clean_tables ZSTD_estimateCCtxSize_usingCCtxParams_internal ZSTD_freeCCtx
 * @bounds failing allocation index: symbolic over all naturals (also no failure); prior context: fresh, or already owning a (too small) workspace from an earlier use; compression parameters: windowLog 10, hash/chain log 6, minMatch 4, strategy fast (quick) / greedy with chain table (thorough), block size 1 KiB; buffered or not
 * @assume counting ZSTD_customMem with live-pointer set; table clears (> 96 bytes) are range-checked and havocked (split model), small struct resets are exact
 * @outside LDM and row-hash tables, large logs (C14 sizing harness), MT contexts
 * @link lib/common/zstd_common.c lib/common/error_private.c
 * @mem split
 * @defs -DV_SPLIT=96
 * @cbmc --unwind 14 --unwindset __builtin_memset.0:98,__builtin_memcpy.0:98,__builtin_memmove.0:98,__builtin_memmove.1:98
 * @timeout 1800
 * @memgb 14
 * @instance fast -DH_STRATEGY=ZSTD_fast
 * @instance greedy tier=thorough timeout=1200 -DH_STRATEGY=ZSTD_greedy
 */
#include "v.h"
#include "alloc_counting.h"
#include "compress/zstd_compress.c"
XXH_errorcode XXH64_reset(XXH64_state_t* s, XXH64_hash_t seed) { (void)s; (void)seed; return XXH_OK; }

static ZSTD_CCtx g_cctx;

void harness(void)
{
    ZSTD_CCtx* const zc = &g_cctx;
    ZSTD_customMem const cm = VC_MEM;
    static ZSTD_CCtx_params params;
    int const hadWorkspace = nondet_bool();
    int const buffered = nondet_bool();
    size_t r;
    zc->customMem = cm;
    ZSTD_CCtxParams_init(&params, 1);
    params.cParams.windowLog = 10;
    params.cParams.hashLog = 6;
    params.cParams.chainLog = 6;
    params.cParams.searchLog = 1;
    params.cParams.minMatch = 4;
    params.cParams.targetLength = 0;
    params.cParams.strategy = H_STRATEGY;
    params.useRowMatchFinder = ZSTD_ps_disable; params.useBlockSplitter = ZSTD_ps_disable; params.ldmParams.enableLdm = ZSTD_ps_disable;
    params.maxBlockSize = 1024; params.inBufferMode = ZSTD_bm_buffered; params.outBufferMode = ZSTD_bm_buffered;
    if (hadWorkspace) {           /* context reused after a smaller job: owns a workspace that is too small now */
        VCHECK(!ZSTD_isError(ZSTD_cwksp_create(&zc->workspace, 512, cm)));
    }
    vc_count = 0; vc_fail_at = nondet_uint();
    r = ZSTD_resetCCtx_internal(zc, &params, 100, 0, ZSTDcrp_makeClean, buffered ? ZSTDb_buffered : ZSTDb_not_buffered);
    if (ZSTD_isError(r)) {
        VCHECKM(vc_failed == 1, "reset fails only because an allocation failed");
        VCHECKM(zc->workspace.workspace == NULL || vc_nlive == 1, "after a failed resize the context does not keep a pointer to memory it already returned");
        /* the same context completes the same operation once memory is available */
        vc_fail_at = 0;
        r = ZSTD_resetCCtx_internal(zc, &params, 100, 0, ZSTDcrp_makeClean, buffered ? ZSTDb_buffered : ZSTDb_not_buffered);
        VCHECKM(!ZSTD_isError(r), "after an allocation failure the same context succeeds once memory is available");
        VWITNESS(hadWorkspace);
        VWITNESS(!hadWorkspace);
    }
    VCHECKM(!ZSTD_cwksp_reserve_failed(&zc->workspace), "every reservation fitted in the workspace sized by the estimate");
    VCHECKM(ZSTD_sizeof_CCtx(zc) >= vc_totalLive, "ZSTD_sizeof_CCtx never under-reports what the context holds");
    VCHECKM(vc_nlive == 1, "exactly one workspace is live");
    ZSTD_freeCCtxContent(zc);
    VC_NOLEAK();
    VWITNESS(vc_failed == 0 && hadWorkspace);
    VWITNESS(buffered);
}
