/* @harness c05.frame_chunk
 * @props C05 C06 C09
 * @tier quick
 * @functions ZSTD_compress_frameChunk ZSTD_optimalBlockSize ZSTD_noCompressBlock ZSTD_checkDictValidity ZSTD_window_enforceMaxDist ZSTD_useTargetCBlockSize ZSTD_blockSplitterEnabled ZSTD_getcBlockSize
 * @bounds one call of the frame-level block loop: source 0..12 arbitrary bytes, block size limit 4..6 (so 0..3 blocks; production limits are >= 1 KiB, the loop is generic in it), destination capacity 0..32 (tail slice of an arena: one byte too many leaves the object), last-chunk flag any, checksum flag any, the three block back ends (plain, block splitter, target compressed block size) selected by arbitrary parameters; window state arbitrary but consistent (indices below the current position)
 * @bounds decided: success or error, never a write outside the destination; on success the output is a sequence of well-formed blocks as read back by the decoder's ZSTD_getcBlockSize: regenerated sizes add up to the source size, the source is consumed contiguously and exactly once, the last-block bit is set on the final block only and exactly when this is the last chunk, raw / RLE / compressed headers carry the right sizes; the returned size is the sum of the block sizes and within the capacity; the frame stage moves to "ending" exactly when a last block was written; the checksum state is fed the whole source once
 * @assume the three block compressors are contract stubs (range-checked: destination writable for the announced capacity, source readable inside the chunk; results: error / 0 = not compressible / 1 = RLE / any size 2..capacity for the plain back end, error or any total size 1..capacity for the two others which write their own headers); ZSTD_overflowCorrectIfNeeded is a no-op stub (C15 harnesses); XXH64_update is logged; the four definition lines are renamed in a scratch copy of zstd_compress.c
 * @outside block contents; pre-splitting of 128 KiB blocks (ZSTD_splitBlock: unreachable below 128 KiB); MT
 * @prep rename lib/compress/zstd_compress.c ZSTD_compressBlock_internal ZSTD_compressBlock_internal_REAL zc_fc1.c
 * @prep rename zc_fc1.c ZSTD_compressBlock_splitBlock ZSTD_compressBlock_splitBlock_REAL zc_fc2.c
 * @prep rename zc_fc2.c ZSTD_compressBlock_targetCBlockSize ZSTD_compressBlock_targetCBlockSize_REAL zc_fc3.c
 * @prep rename zc_fc3.c ZSTD_overflowCorrectIfNeeded ZSTD_overflowCorrectIfNeeded_REAL zc_fc.c
 * @prep extract lib/decompress/zstd_decompress_block.c ZSTD_getcBlockSize blkfc.inc
 * @link lib/common/zstd_common.c lib/common/error_private.c
 * @backend cadical
 * @mem loop
 * @cbmc --unwind 5 --unwindset __builtin_memcpy.0:10,__builtin_memset.0:10,harness.0:90,harness.1:8
 * @timeout 600
 * @memgb 8
 */
#include "v.h"
#include <string.h>
#include <stdlib.h>
#include "compress/zstd_compress_internal.h"
size_t ZSTD_compressBlock_internal(ZSTD_CCtx* zc, void* dst, size_t dstCapacity, const void* src, size_t srcSize, U32 frame);
size_t ZSTD_compressBlock_splitBlock(ZSTD_CCtx* zc, void* dst, size_t dstCapacity, const void* src, size_t srcSize, U32 lastBlock);
size_t ZSTD_compressBlock_targetCBlockSize(ZSTD_CCtx* zc, void* dst, size_t dstCapacity, const void* src, size_t srcSize, U32 lastBlock);
void ZSTD_overflowCorrectIfNeeded(ZSTD_matchState_t* ms, ZSTD_cwksp* ws, ZSTD_CCtx_params const* params, void const* ip, void const* iend);
#include "zc_fc.c"
#include "decompress/zstd_decompress_block.h"
#include "blkfc.inc"

#define MAXSRC 12
#define MAXCAP 32
#define MAXBLOCKS 4
static BYTE g_srcArena[V_SLACK + MAXSRC];
static BYTE g_dstArena[V_SLACK + MAXCAP];
static const BYTE* g_src; static size_t g_srcSize; static BYTE* g_dst; static size_t g_cap;
/* ghost log of the block back-end calls */
static struct { int kind; size_t srcOff, srcSize, ret; size_t dstOff; U32 last; } g_b[MAXBLOCKS]; static int g_nb;
static int g_xxh; static const void* g_xxhSrc; static size_t g_xxhLen;

static size_t backend(int kind, void* dst, size_t dstCapacity, const void* src, size_t srcSize, U32 last)
{
    size_t const r = nondet_size(); int const i = g_nb;
    VCHECKM(dstCapacity == 0 || ((BYTE*)dst >= g_dst && (BYTE*)dst + dstCapacity <= g_dst + g_cap), "block compressor is given a destination range inside the caller's buffer");
    VCHECKM((const BYTE*)src >= g_src && (const BYTE*)src + srcSize <= g_src + g_srcSize && srcSize >= 1, "block compressor is given a non-empty source range inside the chunk");
    VCHECKM(i < MAXBLOCKS, "block count within the harness log");
    if (i < MAXBLOCKS) { g_b[i].kind = kind; g_b[i].srcOff = (size_t)((const BYTE*)src - g_src); g_b[i].srcSize = srcSize; g_b[i].dstOff = (size_t)((BYTE*)dst - g_dst); g_b[i].last = last; }
    g_nb++;
    if (nondet_bool()) { if (i < MAXBLOCKS) g_b[i].ret = (size_t)-1; return ERROR(dstSize_tooSmall); }
    if (kind == 0) VASSUME(r <= dstCapacity && r <= ZSTD_BLOCKSIZE_MAX);            /* 0: not compressible, 1: RLE, else compressed payload size */
    else VASSUME(r >= 1 && r <= dstCapacity);                                       /* total size, own headers */
    if (i < MAXBLOCKS) g_b[i].ret = r;
    return r;
}
size_t ZSTD_compressBlock_internal(ZSTD_CCtx* zc, void* dst, size_t dstCapacity, const void* src, size_t srcSize, U32 frame)
{ (void)zc; VCHECKM(frame == 1, "frame mode"); return backend(0, dst, dstCapacity, src, srcSize, 0); }
size_t ZSTD_compressBlock_splitBlock(ZSTD_CCtx* zc, void* dst, size_t dstCapacity, const void* src, size_t srcSize, U32 lastBlock)
{ (void)zc; return backend(1, dst, dstCapacity, src, srcSize, lastBlock); }
size_t ZSTD_compressBlock_targetCBlockSize(ZSTD_CCtx* zc, void* dst, size_t dstCapacity, const void* src, size_t srcSize, U32 lastBlock)
{ (void)zc; return backend(2, dst, dstCapacity, src, srcSize, lastBlock); }
void ZSTD_overflowCorrectIfNeeded(ZSTD_matchState_t* ms, ZSTD_cwksp* ws, ZSTD_CCtx_params const* params, void const* ip, void const* iend)
{ (void)ms; (void)ws; (void)params; VCHECKM((const BYTE*)ip >= g_src && (const BYTE*)iend <= g_src + g_srcSize && ip <= iend, "overflow correction is asked about a range inside the chunk"); }
XXH_errorcode XXH64_update(XXH64_state_t* s, const void* in, size_t len) { (void)s; g_xxh++; g_xxhSrc = in; g_xxhLen = len; return XXH_OK; }

static ZSTD_CCtx g_cctx;

void harness(void)
{
    ZSTD_CCtx* const cctx = &g_cctx; ZSTD_matchState_t* const ms = &cctx->blockState.matchState;
    size_t const srcSize = nondet_size(), cap = nondet_size(), blockLimit = nondet_size();
    U32 const lastChunk = nondet_bool(); size_t r; unsigned i; U32 const off = nondet_uint();
    VASSUME(srcSize <= MAXSRC && cap <= MAXCAP && blockLimit >= 4 && blockLimit <= 6 && off >= 2 && off <= 32);
    for (i = 0; i < V_SLACK + MAXSRC; i++) g_srcArena[i] = nondet_uchar();
    g_src = g_srcArena + sizeof g_srcArena - srcSize; g_srcSize = srcSize;
    g_dst = g_dstArena + sizeof g_dstArena - cap; g_cap = cap;      /* tail slice: one byte too many leaves the object */
    cctx->blockSize = blockLimit;
    cctx->appliedParams.cParams.windowLog = nondet_uint(); VASSUME(cctx->appliedParams.cParams.windowLog >= 10 && cctx->appliedParams.cParams.windowLog <= 31);
    {   unsigned const st = nondet_uint(); VASSUME(st >= ZSTD_fast && st <= ZSTD_btultra2); cctx->appliedParams.cParams.strategy = (ZSTD_strategy)st; }
    cctx->appliedParams.fParams.checksumFlag = nondet_bool();
    cctx->appliedParams.targetCBlockSize = nondet_bool() ? 1340 : 0;
    cctx->appliedParams.useBlockSplitter = nondet_bool() ? ZSTD_ps_enable : ZSTD_ps_disable;
    cctx->consumedSrcSize = nondet_u64(); cctx->producedCSize = nondet_u64(); VASSUME(cctx->consumedSrcSize < (1ULL << 62) && cctx->producedCSize < (1ULL << 62));
    cctx->stage = ZSTDcs_ongoing; cctx->isFirstBlock = nondet_bool();
    /* window: the chunk is the newest part of the current segment; indices below it are arbitrary but ordered */
    ms->window.base = g_src - off; ms->window.dictBase = g_src - off; ms->window.nextSrc = g_src + srcSize;
    ms->window.dictLimit = nondet_uint(); ms->window.lowLimit = nondet_uint(); VASSUME(ms->window.lowLimit <= ms->window.dictLimit && ms->window.dictLimit <= off);
    ms->loadedDictEnd = nondet_uint(); VASSUME(ms->loadedDictEnd <= off);
    ms->nextToUpdate = nondet_uint(); VASSUME(ms->nextToUpdate <= off + srcSize);
    ms->dictMatchState = NULL;

    r = ZSTD_compress_frameChunk(cctx, g_dst, cap, g_src, srcSize, lastChunk);

    VCHECKM(g_xxh == (cctx->appliedParams.fParams.checksumFlag && srcSize ? 1 : 0) && (!g_xxh || (g_xxhSrc == (const void*)g_src && g_xxhLen == srcSize)), "the checksum state is fed the whole chunk exactly once (when checksums are on)");
    if (!ZSTD_isError(r)) {
        size_t pos = 0, srcPos = 0; int b; int sawLast = 0;
        VCHECKM(r <= cap, "the block loop never reports more than the capacity");
        VCHECKM(g_nb <= MAXBLOCKS - 1, "at most ceil(src / blockLimit) blocks");
        for (b = 0; b < MAXBLOCKS; b++) if (b < g_nb) {
            size_t const bs = g_b[b].srcSize; size_t total;
            U32 const expectLast = (lastChunk && srcPos + bs == srcSize) ? 1u : 0u;
            VCHECKM(g_b[b].srcOff == srcPos && bs <= blockLimit && g_b[b].ret != (size_t)-1, "blocks consume the chunk contiguously, at most one block size limit each");
            VCHECKM(!sawLast, "nothing follows a block marked last");
            if (g_b[b].kind == 0) {
                blockProperties_t bp; size_t c;
                VCHECKM(g_b[b].dstOff == pos + 3, "the plain back end writes its payload right after the 3-byte header");
                VCHECKM(pos + 3 <= r, "block header inside the produced output");
                c = ZSTD_getcBlockSize(g_dst + pos, r - pos, &bp);
                if (g_b[b].ret == 0) { VCHECKM(!ZSTD_isError(c) && bp.blockType == bt_raw && bp.origSize == bs && c == bs, "incompressible block is emitted as a raw block of the block's size"); total = 3 + bs; }
                else if (g_b[b].ret == 1) { VCHECKM(!ZSTD_isError(c) && bp.blockType == bt_rle && bp.origSize == bs && c == 1, "1-byte result is emitted as an RLE block regenerating the block's size"); total = 4; }
                else { VCHECKM(!ZSTD_isError(c) && bp.blockType == bt_compressed && c == g_b[b].ret, "compressed block header carries the compressed size"); total = 3 + g_b[b].ret; }
                VCHECKM(bp.lastBlock == expectLast, "last-block bit: on the final block of the last chunk only");
                sawLast = (int)bp.lastBlock;
            } else {
                VCHECKM(g_b[b].dstOff == pos && g_b[b].last == expectLast, "back ends that write their own headers start at the block position and are told whether this is the last block");
                total = g_b[b].ret; sawLast = (int)g_b[b].last;
            }
            pos += total; srcPos += bs;
        }
        VCHECKM(srcPos == srcSize && pos == r, "every source byte is in exactly one block; the returned size is the sum of the block sizes");
        VCHECKM((cctx->stage == ZSTDcs_ending) == (lastChunk && r > 0), "the frame stage moves to ending exactly when this last chunk produced output");
        if (srcSize) VCHECKM(cctx->isFirstBlock == 0 && (sawLast != 0) == (lastChunk != 0), "a non-empty last chunk ends with a last block");
        VWITNESS(g_nb == 3 && g_b[0].kind == 0 && g_b[0].ret == 0 && g_b[1].ret == 1 && g_b[2].ret > 1 && lastChunk);
        VWITNESS(g_nb == 2 && g_b[0].kind == 1);
        VWITNESS(g_nb == 2 && g_b[0].kind == 2);
        VWITNESS(srcSize == 0 && lastChunk);
    } else {
        VWITNESS(g_nb == 0 && srcSize > 0);       /* capacity refused before any block */
        VWITNESS(g_nb == 2);
    }
}
