/* @harness c17.explicit
 * @props C17
 * @tier quick
 * @functions determine_blockSize blockSize_explicitDelimiter ZSTD_copySequencesToSeqStoreExplicitBlockDelim ZSTD_validateSequence ZSTD_finalizeOffBase ZSTD_updateRep ZSTD_storeSeq ZSTD_storeLastLiterals ZSTD_safecopyLiterals ZSTD_wildcopy ZSTD_resetSeqStore
 * @bounds array of NSEQ (3 quick, 4 thorough) ZSTD_Sequence with every field an arbitrary 32-bit value, inSeqsSize 0..NSEQ; source remaining 0..16 bytes (24 thorough) (tail-aligned: any over-read leaves the object); block size limit 8..12 (20 thorough) (production >= 1 KiB: the code is generic in it, the small value makes both "too large block" and "longer than source" reachable); bytes decoded before the block: any value < 2^33; windowLog 10..31; dictionary size any 32-bit value; minMatch 3..7; prior repcode history any non-zero values; validation on/off; repcode search on/off; with/without external producer
 * @bounds entered, as ZSTD_compressSequences_internal does, through determine_blockSize on the same array (calling the copier in isolation raises alarms no caller can trigger)
 * @assume literal payload copies (> 12 bytes) are range-checked and their destination havocked (content is not an obligation here); built with ZSTD_NO_INTRINSICS so 16-byte copies go through memcpy
 * @assume seqStore buffers sized as ZSTD_resetCCtx_internal sizes them (literals: blockSize + WILDCOPY_OVERLENGTH, sequences: maxNbSeq = blockSize/3 + 1)
 * @assume decoder-side repcode semantics written in the harness from doc/zstd_compression_format.md (Repeat offsets)
 * @outside entropy stage after transcription (C01); frames larger than the bounds; match content (a list whose matches do not match the source is outside the documented validation scope)
 * @link lib/common/zstd_common.c lib/common/error_private.c
 * @mem split
 * @defs -DZSTD_NO_INTRINSICS
 * @cbmc --unwind 6 --unwindset __builtin_memcpy.0:14,__builtin_memset.0:14,__builtin_memmove.0:14,__builtin_memmove.1:14,ZSTD_safecopyLiterals.0:40,harness.0:70,harness.1:70,harness.2:70,harness.3:70,harness.4:70,harness.5:70
 * @timeout 600
 * @memgb 6
 * @instance val_rep -DH_VALIDATE=1 -DH_REPSEARCH=1
 * @instance val_norep -DH_VALIDATE=1 -DH_REPSEARCH=0
 * @instance noval_rep -DH_VALIDATE=0 -DH_REPSEARCH=1
 * @instance val_rep4 tier=thorough timeout=1800 -DH_VALIDATE=1 -DH_REPSEARCH=1 -DNSEQ=4 -DMAXSRC=24 -DMAXBLK=20
 */
#include "v.h"
#include <string.h>
#include "compress/zstd_compress.c"

#ifndef NSEQ
#define NSEQ 3
#endif
#ifndef MAXSRC
#define MAXSRC 16
#endif
#ifndef MAXBLK
#define MAXBLK 12
#endif

static ZSTD_CCtx g_cctx;
static ZSTD_compressedBlockState_t g_prev, g_next;
static BYTE g_arena[V_SLACK + MAXSRC];                       /* source: tail slice */
static BYTE g_lit[V_SLACK + MAXBLK + WILDCOPY_OVERLENGTH];   /* literal buffer: tail slice */
static seqDef g_seqs[MAXBLK / 3 + 2];
static ZSTD_Sequence g_in[NSEQ];

/* decoder-side resolution of a stored offset code (format document, "Repeat offsets") */
static U32 ref_resolve(U32 rep[3], U32 offBase, U32 litLength)
{
    U32 off;
    if (offBase > 3) { off = offBase - 3; rep[2] = rep[1]; rep[1] = rep[0]; rep[0] = off; return off; }
    {   U32 const idx = offBase - 1 + (litLength == 0);    /* 0..3 */
        if (idx == 0) return rep[0];
        off = (idx == 3) ? rep[0] - 1 : rep[idx];
        if (idx != 1) rep[2] = rep[1];
        rep[1] = rep[0]; rep[0] = off;
        return off;
    }
}

void harness(void)
{
    ZSTD_CCtx* const cctx = &g_cctx;
    size_t const remaining = nondet_size();
    size_t const blockLimit = nondet_size();
    size_t const inSeqsSize = nondet_size();
    size_t const pos0 = nondet_size();
    U32 const windowLog = nondet_uint();
    unsigned const repSearch = H_REPSEARCH ? ZSTD_ps_enable : ZSTD_ps_disable;
    U32 rep0[3]; int i;
    const BYTE* src;
    VASSUME(remaining <= MAXSRC && blockLimit >= 8 && blockLimit <= MAXBLK && inSeqsSize <= NSEQ);
    VASSUME(pos0 < ((size_t)1 << 33));
    VASSUME(windowLog >= 10 && windowLog <= 31);
    for (i = 0; i < NSEQ; i++) {
        g_in[i].offset = nondet_uint(); g_in[i].litLength = nondet_uint(); g_in[i].matchLength = nondet_uint(); g_in[i].rep = nondet_uint();
        /* without validation, representable offsets and matches >= MINMATCH are the caller's duty */
        if (!H_VALIDATE) VASSUME(g_in[i].offset <= 0xFFFFFFFFu - ZSTD_REP_NUM && (g_in[i].offset == 0 || g_in[i].matchLength >= MINMATCH));
    }
    for (i = 0; i < 3; i++) { rep0[i] = nondet_uint(); VASSUME(rep0[i] != 0); g_prev.rep[i] = rep0[i]; }
    src = g_arena + sizeof g_arena - remaining;
    cctx->blockState.prevCBlock = &g_prev; cctx->blockState.nextCBlock = &g_next;
    cctx->blockSize = blockLimit;
    cctx->seqStore.sequencesStart = g_seqs; cctx->seqStore.maxNbSeq = blockLimit / 3 + 1;
    cctx->seqStore.litStart = g_lit + sizeof g_lit - (blockLimit + WILDCOPY_OVERLENGTH); cctx->seqStore.maxNbLit = blockLimit;
    cctx->appliedParams.validateSequences = H_VALIDATE;
    cctx->appliedParams.cParams.minMatch = nondet_uint(); VASSUME(cctx->appliedParams.cParams.minMatch >= 3 && cctx->appliedParams.cParams.minMatch <= 7);
    cctx->appliedParams.cParams.windowLog = windowLog;
    cctx->appliedParams.extSeqProdFunc = nondet_bool() ? (ZSTD_sequenceProducer_F)harness : NULL;   /* only compared with NULL */
    cctx->appliedParams.blockDelimiters = ZSTD_sf_explicitBlockDelimiters;
    {   static const char d[4] = "dic";
        cctx->prefixDict.dict = nondet_bool() ? d : NULL;
        cctx->prefixDict.dictSize = nondet_uint();
    }
    {   U32 const dictSize = cctx->prefixDict.dict ? (U32)cctx->prefixDict.dictSize : 0;
        ZSTD_sequencePosition seqPos = { 0, 0, 0 };
        size_t blockSize, r;
        seqPos.posInSrc = pos0;
        memset(g_lit, V_CANARY, V_SLACK);
        blockSize = determine_blockSize(ZSTD_sf_explicitBlockDelimiters, cctx->blockSize, remaining, g_in, inSeqsSize, seqPos);
        {   /* (iv) delimiter rules, stated independently: first delimiter (offset==0) at index e */
            size_t e = 0; unsigned long long sum = 0; int found = 0;
            for (e = 0; e < inSeqsSize; e++) {
                sum += (unsigned long long)g_in[e].litLength + g_in[e].matchLength;
                if (g_in[e].offset == 0) { found = 1; break; }
            }
            if (!found) VCHECKM(ZSTD_isError(blockSize), "missing block delimiter is rejected");
            else if (g_in[e].matchLength != 0) VCHECKM(ZSTD_isError(blockSize), "delimiter with non-zero matchLength is rejected");
            else if (sum > blockLimit) VCHECKM(ZSTD_isError(blockSize), "block longer than the block size limit is rejected");
            else if (sum > remaining) VCHECKM(ZSTD_isError(blockSize), "block longer than the remaining source is rejected");
            else VCHECKM(blockSize == (size_t)sum, "well-formed block: size is the sum of its lengths");
        }
        if (ZSTD_isError(blockSize)) { VWITNESS(inSeqsSize == NSEQ); return; }
        ZSTD_resetSeqStore(&cctx->seqStore);
        r = ZSTD_copySequencesToSeqStoreExplicitBlockDelim(cctx, &seqPos, g_in, inSeqsSize, src, blockSize, (ZSTD_paramSwitch_e)repSearch);
        for (i = 0; i < V_SLACK; i++) VCHECKM(g_lit[i] == V_CANARY, "nothing written before the literal buffer");
        if (!ZSTD_isError(r)) {
            size_t const nb = (size_t)(cctx->seqStore.sequences - cctx->seqStore.sequencesStart);
            size_t pos = pos0; size_t k; U32 drep[3];
            size_t const windowSize = (size_t)1 << windowLog;
            size_t const minML = (cctx->appliedParams.cParams.minMatch == 3 || cctx->appliedParams.extSeqProdFunc) ? 3 : 4;
            drep[0] = rep0[0]; drep[1] = rep0[1]; drep[2] = rep0[2];
            VCHECKM(nb + 1 == seqPos.idx && nb < NSEQ, "one stored sequence per input sequence up to the delimiter");
            VCHECKM((size_t)(cctx->seqStore.lit - cctx->seqStore.litStart) <= blockLimit, "literals stored never exceed the block size");
            for (k = 0; k < nb; k++) {
                U32 const ll = g_in[k].litLength, ml = g_in[k].matchLength, off = g_in[k].offset;
                seqDef const s = g_seqs[k];
                pos += ll;                      /* decoder position at the START of this match */
                if (H_VALIDATE) {
                    size_t const bound = pos > windowSize ? windowSize : pos + dictSize;
                    VCHECKM(off <= bound, "validated: offset within window / history available at the start of the match (+dictionary)");
                    VCHECKM(ml >= minML, "validated: match not shorter than the minimum");
                }
                /* lengths stored faithfully (all < 65536 here) */
                VCHECKM(s.litLength == ll && (U32)s.mlBase + MINMATCH == ml, "stored lengths equal the given lengths");
                /* decoder resolves the stored offset code to exactly the offset the caller gave */
                if (off <= 0xFFFFFFFFu - ZSTD_REP_NUM) {
                    U32 const got = ref_resolve(drep, s.offBase, ll);
                    VCHECKM(got == off, "decoder-side resolution of the stored offset code yields the given offset");
                }
                pos += ml;
            }
            VCHECKM(g_next.rep[0] == drep[0] && g_next.rep[1] == drep[1] && g_next.rep[2] == drep[2], "encoder repcode history after the block equals the decoder's");
            VCHECKM(seqPos.posInSrc == pos + g_in[nb].litLength || !H_VALIDATE, "position accounting covers the whole block");
            VWITNESS(nb == NSEQ - 1);
#if H_REPSEARCH
            VWITNESS(nb == 2 && g_seqs[1].offBase == 3 && g_in[1].litLength == 0);
#endif
            VWITNESS(nb == 1 && g_in[0].litLength > 8);
            VWITNESS(nb == 1 && g_in[0].offset > (1u << 20));
        }
#if H_VALIDATE
        VWITNESS(ZSTD_isError(r));
#endif
    }
}
