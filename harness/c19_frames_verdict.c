/* @harness c19.frames_verdict
 * @props C19 C09
 * @tier quick
 * @functions FIO_decompressFrames FIO_shouldDisplayFileSummary
 * @bounds the CLI's per-file decompression verdict (the value that decides whether --rm may delete the source): source file of 0..12 ARBITRARY bytes delivered by the read pool in arbitrary portions, each zstd frame decoder call consuming any 4..remaining bytes or failing; pass-through setting any of -1 / 0 / 1, overwrite flag any, destination a file or stdout
 * @bounds decided: success (0) is reported only if at least one byte was read, every frame started - exactly where the previous one ended - with a recognised zstd or skippable magic number, none of them failed, and the file was consumed to its last byte; an empty file, 1..3 trailing bytes, an unknown magic number or a format this build cannot decode give an error, unless pass-through is in force (explicitly, or by default only with overwrite to stdout), in which case the verdict is the pass-through copier's; the output byte counter grows by exactly the sum of the frames' sizes
 * @assume FIO_decompressZstdFrame and FIO_passThrough are contract stubs (definition lines renamed in a scratch copy of fileio.c, calls redirected by macro); the read pool is a model (fill: at least the requested amount when available; consume: at most what is loaded); ZSTD_isFrame is the format's magic-number test (legacy formats off); gzip / xz / lz4 support compiled out, as in the pinned build without those libraries
 * @outside the frame decoder loop itself and its interaction with the write pool (sparse writes: c19.sparse); real asynchronous I/O
 * @prep rename programs/fileio.c FIO_decompressZstdFrame FIO_decompressZstdFrame_REAL fio_fv1.c
 * @prep rename fio_fv1.c FIO_passThrough FIO_passThrough_REAL fio_fv.c
 * @link lib/common/zstd_common.c lib/common/error_private.c
 * @mem native
 * @cbmc --unwind 6 --unwindset harness.0:14,strcmp.0:14
 * @timeout 600
 * @memgb 6
 */
#include "v.h"
#include <stdio.h>
#include <stdlib.h>
#include <string.h>
unsigned long long v_zstdFrame(void* fCtx, void* ress, const void* prefs, const char* srcFileName, unsigned long long alreadyDecoded);
int v_passThrough(void* ress);
#define FIO_decompressZstdFrame(a, b, c, d, e) v_zstdFrame((void*)(a), (void*)(b), (const void*)(c), (d), (e))
#define FIO_passThrough(r) v_passThrough((void*)(r))
struct FIO_ctx_s; struct FIO_prefs_s;
#include "fio_fv.c"

#define LMAX 12
static U8 g_file[LMAX + 4]; static size_t g_len, g_pos; static int g_frames, g_frameErr, g_badStart, g_pass; static int g_passRet; static unsigned long long g_sum;

unsigned ZSTD_isFrame(const void* buffer, size_t size)
{
    if (size < 4) return 0;
    {   U32 const magic = MEM_readLE32(buffer);
        return magic == ZSTD_MAGICNUMBER || (magic & ZSTD_MAGIC_SKIPPABLE_MASK) == ZSTD_MAGIC_SKIPPABLE_START; }
}
size_t AIO_ReadPool_fillBuffer(ReadPoolCtx_t* ctx, size_t n)
{
    size_t const avail = g_len - g_pos; size_t const loaded = nondet_size();
    VASSUME(loaded <= avail && loaded >= (n < avail ? n : avail) && loaded >= ctx->srcBufferLoaded);
    ctx->srcBuffer = g_file + g_pos; ctx->srcBufferLoaded = loaded;
    return loaded;
}
void AIO_ReadPool_consumeBytes(ReadPoolCtx_t* ctx, size_t n)
{
    VCHECKM(n <= ctx->srcBufferLoaded, "never consumes more than what is loaded");
    g_pos += n; ctx->srcBuffer += n; ctx->srcBufferLoaded -= n;
}
unsigned long long v_zstdFrame(void* fCtx, void* ressv, const void* prefs, const char* srcFileName, unsigned long long alreadyDecoded)
{
    dRess_t* const ress = (dRess_t*)ressv; size_t const k = nondet_size(); unsigned long long const sz = nondet_u64();
    (void)fCtx; (void)prefs; (void)srcFileName;
    VCHECKM(alreadyDecoded == g_sum, "each frame is told how much was decoded before it");
    if (!(g_len - g_pos >= 4 && ZSTD_isFrame(g_file + g_pos, g_len - g_pos))) g_badStart = 1;
    g_frames++;
    if (nondet_bool()) { g_frameErr = 1; return FIO_ERROR_FRAME_DECODING; }
    VASSUME(k >= 4 && k <= g_len - g_pos && sz < (1ULL << 40));
    AIO_ReadPool_fillBuffer(ress->readCtx, k);
    AIO_ReadPool_consumeBytes(ress->readCtx, k);
    g_sum += sz;
    return sz;
}
int v_passThrough(void* ress) { (void)ress; g_pass++; g_passRet = nondet_bool(); return g_passRet; }

void harness(void)
{
    static FIO_ctx_t fctx; static FIO_prefs_t prefs; static ReadPoolCtx_t rp; dRess_t ress; int r; unsigned i; size_t out0;
    int const toStdout = nondet_bool();
    g_len = nondet_size(); VASSUME(g_len <= LMAX);
    for (i = 0; i < LMAX; i++) g_file[i] = nondet_uchar();
    memset(&ress, 0, sizeof ress); ress.readCtx = &rp;
    prefs.passThrough = nondet_int(); VASSUME(prefs.passThrough >= -1 && prefs.passThrough <= 1);
    prefs.overwrite = nondet_bool();
    fctx.nbFilesTotal = 1; fctx.totalBytesOutput = nondet_size(); VASSUME(fctx.totalBytesOutput < (1ULL << 40)); out0 = fctx.totalBytesOutput;
    r = FIO_decompressFrames(&fctx, ress, &prefs, toStdout ? stdoutmark : "b", "a");
    {   int const passAllowed = prefs.passThrough == 1 || (prefs.passThrough == -1 && prefs.overwrite && toStdout);
        VCHECKM(g_pass <= 1 && (!g_pass || passAllowed), "pass-through copying happens only when it is in force (explicitly, or by default with overwrite to stdout)");
        if (g_frameErr) VCHECKM(r == 1, "a frame that fails to decode makes the file fail");
        if (g_pass) VCHECKM(r == g_passRet && !g_frameErr, "in pass-through the verdict is the copier's");
        else if (r == 0) {
            VCHECKM(g_len > 0 && g_frames >= 1, "success needs at least one decoded frame: an empty file is an error");
            VCHECKM(!g_badStart, "every frame started with a recognised magic number, where the previous frame ended");
            VCHECKM(g_pos == g_len, "success only when the file was consumed to its last byte (no trailing garbage)");
            VCHECKM(fctx.totalBytesOutput == out0 + g_sum, "the output counter grows by the sum of the frames' sizes");
        }
        if (!passAllowed && (g_len == 0 || (g_len - g_pos >= 1 && g_len - g_pos <= 3 && !g_frameErr))) VCHECKM(r == 1, "an empty file or 1..3 trailing bytes are an error");
        VWITNESS(r == 0 && g_frames == 2);
        VWITNESS(r == 1 && g_frames == 1 && !g_frameErr && !g_pass);
        VWITNESS(g_pass == 1 && g_frames == 1);
    }
}
