/* @harness c20.compress_side
 * @props C20
 * @tier quick
 * @functions ZSTD_seekable_compressStream ZSTD_seekable_endFrame ZSTD_seekable_logFrame ZSTD_seekable_endStream
 * @bounds ONE call of compressStream / endFrame from an ARBITRARY mid-frame state that satisfies the accounting invariant (frameCSize = bytes the compressor emitted for the current frame so far, frameDSize = bytes it consumed, frameDSize <= maxFrameSize); maxFrameSize 1..2^30; any input size, any output room; frame log with 0..3 entries (capacity 4)
 * @assume ZSTD_compressStream / ZSTD_endStream are contract stubs: consume any prefix of the offered input, emit any number of bytes that fits the output, endStream returns 0 exactly when the frame's epilogue is fully flushed (may take several calls); XXH64 uninterpreted
 * @outside the zstd frames themselves (C01-C06); growth of the frame log beyond 4 entries
 * @link lib/common/zstd_common.c lib/common/error_private.c
 * @mem native
 * @cbmc --unwind 6
 * @timeout 300
 * @memgb 4
 */
#include "v.h"
#include <string.h>
#include "zstdseek_compress.c"

static unsigned long long g_emitted, g_consumed;       /* ghost: what the compressor really did for the current frame */
static int g_endCalls, g_frameClosed;
size_t ZSTD_compressStream(ZSTD_CStream* zcs, ZSTD_outBuffer* output, ZSTD_inBuffer* input)
{
    size_t const c = nondet_size(), e = nondet_size();
    (void)zcs;
    VASSUME(c <= input->size - input->pos && e <= output->size - output->pos);
    input->pos += c; output->pos += e; g_consumed += c; g_emitted += e;
    if (nondet_bool()) return ERROR(GENERIC);
    return nondet_size() & 0xFFFF;
}
size_t ZSTD_endStream(ZSTD_CStream* zcs, ZSTD_outBuffer* output)
{
    size_t const e = nondet_size();
    (void)zcs;
    VASSUME(e <= output->size - output->pos);
    output->pos += e; g_emitted += e; g_endCalls++;
    if (nondet_bool()) { g_frameClosed = 1; return 0; }
    return 1 + (nondet_size() & 0xFF);          /* bytes still to flush: caller must come back */
}
size_t ZSTD_CCtx_reset(ZSTD_CCtx* cctx, ZSTD_ResetDirective reset) { (void)cctx; (void)reset; return 0; }
size_t ZSTD_CCtx_setParameter(ZSTD_CCtx* cctx, ZSTD_cParameter param, int value) { (void)cctx; (void)param; (void)value; return 0; }
XXH_errorcode XXH64_reset(XXH64_state_t* s, XXH64_hash_t seed) { (void)s; (void)seed; return XXH_OK; }
XXH_errorcode XXH64_update(XXH64_state_t* s, const void* in, size_t len) { (void)s; (void)in; (void)len; return XXH_OK; }
XXH64_hash_t XXH64_digest(const XXH64_state_t* s) { (void)s; return nondet_u64(); }

static ZSTD_seekable_CStream g_zcs; static framelogEntry_t g_entries[4];
static unsigned char g_in[4], g_out[4];

void harness(void)
{
    ZSTD_seekable_CStream* const z = &g_zcs;
    ZSTD_inBuffer in; ZSTD_outBuffer out; size_t r; U32 size0;
    z->framelog.entries = g_entries; z->framelog.capacity = 4; z->framelog.size = nondet_uint(); VASSUME(z->framelog.size <= 3);
    z->framelog.checksumFlag = nondet_bool();
    z->maxFrameSize = nondet_uint(); VASSUME(z->maxFrameSize >= 1 && z->maxFrameSize <= ZSTD_SEEKABLE_MAX_FRAME_DECOMPRESSED_SIZE);
    z->frameCSize = nondet_uint(); z->frameDSize = nondet_uint();
    VASSUME(z->frameDSize <= z->maxFrameSize && z->frameCSize < (1u << 31));
    g_emitted = z->frameCSize; g_consumed = z->frameDSize;          /* accounting invariant holds on entry */
    size0 = z->framelog.size;
    in.src = g_in; in.pos = nondet_size(); in.size = nondet_size(); VASSUME(in.pos <= in.size && in.size < ((size_t)1 << 31));
    out.dst = g_out; out.pos = nondet_size(); out.size = nondet_size(); VASSUME(out.pos <= out.size && out.size < ((size_t)1 << 31));
    if (nondet_bool()) r = ZSTD_seekable_compressStream(z, &out, &in);
    else r = ZSTD_seekable_endFrame(z, &out);
    if (z->framelog.size == size0 + 1) {
        /* a frame was closed and logged: the log must describe exactly what the compressor did */
        VCHECKM(g_frameClosed, "a frame is logged only when the compressor reported its epilogue fully flushed");
        VCHECKM(g_entries[size0].cSize == (U32)g_emitted, "logged compressed size = all bytes emitted for that frame (including every partial flush)");
        VCHECKM(g_entries[size0].dSize == (U32)g_consumed, "logged decompressed size = all input bytes consumed into that frame");
        VCHECKM(z->frameCSize == 0 && z->frameDSize == 0, "counters restart for the next frame");
        VWITNESS(g_endCalls == 1 && g_emitted > 100);
    } else {
        VCHECKM(z->framelog.size == size0, "at most one frame is logged per call");
        if (!g_frameClosed)
            VCHECKM(z->frameCSize == (U32)g_emitted && z->frameDSize == (U32)g_consumed, "accounting invariant preserved when the frame stays open (also when its epilogue is only partly flushed)");
        VWITNESS(g_endCalls == 1 && !g_frameClosed);
    }
    VCHECKM(g_consumed <= z->maxFrameSize || g_frameClosed, "a frame never takes more input than maxFrameSize");
    (void)r;
}
