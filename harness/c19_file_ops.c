/* @harness c19.file_ops
 * @props C19
 * @tier quick
 * @functions FIO_compressFilename_srcFile FIO_compressFilename_dstFile FIO_decompressSrcFile FIO_decompressDstFile FIO_openSrcFile FIO_openDstFile FIO_removeFile addHandler clearHandler
 * @bounds one source path and one destination path on a file-system MODEL; options --rm, -f, sparse, exclude-compressed: any combination; destination pre-existing (with other content) or not; EVERY stubbed system call may fail or succeed independently (open, fopen, fclose, remove, close of the written file, user confirmation); the codec loop's verdict: success or failure
 * @assume crash-point quantifier: a crash between two system calls leaves the file system in the state after a PREFIX of the call sequence, so the data-safety predicate (source intact OR destination complete and closed) is asserted after EVERY file-system-mutating stub; the codec loops (FIO_compressFilename_internal / FIO_decompressFrames: static callees, scratch copy of fileio.c with only their definition lines renamed) are contract stubs: return 0 => the open destination now holds the complete output, otherwise partial output; UTIL_* stat helpers answer from the model; signals are only registered/cleared (logged)
 * @outside kernel and libc semantics, signal delivery itself, asynchronous I/O threads, zstdcli.c option parsing, directory recursion, stdin/stdout special names (only regular named files here)
 * @prep rename programs/fileio.c FIO_compressFilename_internal FIO_compressFilename_internal_REAL fio_p1.c
 * @prep rename fio_p1.c FIO_decompressFrames FIO_decompressFrames_REAL fio_patched.c
 * @link lib/common/zstd_common.c lib/common/error_private.c
 * @mem native
 * @cbmc --unwind 6 --object-bits 11
 * @timeout 300
 * @memgb 6
 * @instance compress -DH_COMPRESS
 * @instance decompress -DH_DECOMPRESS
 */
#include "v.h"
/* system headers first (their include guards make fileio.c's own includes no-ops), then the libc entry points
 * that touch the file system are renamed INSIDE this translation unit only: the real libc stays intact for
 * the replay runtime and the sanitizers */
#include <stdio.h>
#include <stdlib.h>
#include <string.h>
#include <signal.h>
#include <errno.h>
#include <fcntl.h>
#include <unistd.h>
#include <sys/types.h>
#include <sys/stat.h>
#include <time.h>
#include <limits.h>
#include <assert.h>
#define fopen    v_fopen
#define fclose   v_fclose
#define open     v_open
#define fdopen   v_fdopen
#define fileno   v_fileno
#define setvbuf  v_setvbuf
#define remove   v_remove
#define signal   v_signal
FILE* v_fopen(const char* p, const char* m); int v_fclose(FILE* f); int v_open(const char* p, int fl, ...); FILE* v_fdopen(int fd, const char* m);
int v_fileno(FILE* f); int v_setvbuf(FILE* f, char* b, int m, size_t n); int v_remove(const char* p);
typedef void (*v_sigh_t)(int); v_sigh_t v_signal(int s, v_sigh_t h);
struct FIO_ctx_s; struct FIO_prefs_s;
#include "fio_patched.c"

/* ---------- file-system model: 2 paths ---------- */
enum { T_NONE, T_SRC, T_COMPLETE, T_PARTIAL, T_OTHER };
typedef struct { int exists, regular, tag, open; } node_t;
static node_t fs[2];                     /* 0 = source "a", 1 = destination "b" */
static int idx(const char* p) { return (p[0] == 'a' && p[1] == 0) ? 0 : 1; }
static int g_handlerSet, g_srcRemovedWhileHandler, g_removeFailed;
static void crashpoint(void)
{   /* the user's data is recoverable at this instant */
    VCHECKM((fs[0].exists && fs[0].tag == T_SRC) || (fs[1].exists && fs[1].tag == T_COMPLETE && fs[1].open == 0),
            "at every instant the source is intact, or the destination is complete and closed");
}
static FILE fsrc, fdst;
int UTIL_stat(const char* f, stat_t* st) { int const i = idx(f); if (!fs[i].exists) return 0; st->st_mode = fs[i].regular ? S_IFREG : S_IFIFO; st->st_ino = (ino_t)(i + 1); st->st_dev = 1; return 1; }
int UTIL_isRegularFile(const char* f) { int const i = idx(f); return fs[i].exists && fs[i].regular; }
int UTIL_isDirectory(const char* f) { (void)f; return 0; }
int UTIL_isSameFile(const char* a, const char* b) { return idx(a) == idx(b); }
int UTIL_isSameFileStat(const char* a, const char* b, const stat_t* x, const stat_t* y) { (void)x; (void)y; return idx(a) == idx(b); }
static int g_userSaidYes;
int UTIL_requireUserConfirmation(const char* p, const char* ab, const char* ok, int hasStdin) { int const r = nondet_bool(); (void)p; (void)ab; (void)ok; (void)hasStdin; if (r == 0) g_userSaidYes = 1; return r; }
int UTIL_setFDStat(const int fd, const char* f, const stat_t* st) { (void)fd; (void)f; (void)st; return 0; }
int UTIL_utime(const char* f, const stat_t* st) { (void)f; (void)st; return 0; }
int UTIL_isCompressedFile(const char* f, const char* l[]) { (void)f; (void)l; return nondet_bool(); }
int UTIL_isRegularFileStat(const stat_t* s) { return S_ISREG(s->st_mode); }
int UTIL_isDirectoryStat(const stat_t* s) { return S_ISDIR(s->st_mode); }
int UTIL_isFIFOStat(const stat_t* s) { return S_ISFIFO(s->st_mode); }
int UTIL_isBlockDevStat(const stat_t* s) { return S_ISBLK(s->st_mode); }
U64 UTIL_getFileSizeStat(const stat_t* s) { (void)s; return UTIL_FILESIZE_UNKNOWN; }
FILE* fopen(const char* p, const char* m) { (void)m; if (nondet_bool()) return NULL; fs[idx(p)].open++; return &fsrc; }
int fclose(FILE* f) { if (f == &fsrc) fs[0].open = 0; return nondet_bool() ? -1 : 0; }
int open(const char* p, int fl, ...) { (void)fl; if (nondet_bool()) return -1; { int const i = idx(p); fs[i].exists = 1; fs[i].regular = 1; fs[i].tag = T_PARTIAL; fs[i].open++; crashpoint(); } return 5; }
FILE* fdopen(int fd, const char* m) { (void)fd; (void)m; return &fdst; }
int fileno(FILE* f) { (void)f; return 5; }
int setvbuf(FILE* f, char* b, int m, size_t n) { (void)f; (void)b; (void)m; (void)n; return 0; }
int remove(const char* p)
{   if (nondet_bool()) { g_removeFailed = 1; return -1; }
    { int const i = idx(p); fs[i].exists = 0; fs[i].tag = T_NONE; if (i == 0 && g_handlerSet) g_srcRemovedWhileHandler = 1; crashpoint(); }
    return 0; }
v_sigh_t signal(int s, v_sigh_t h) { (void)s; g_handlerSet = (h != (v_sigh_t)0 && h != (v_sigh_t)1 /* SIG_IGN */ && h != SIG_DFL); return h; }
/* AIO pools: bookkeeping only */
struct WritePoolCtx_s { int dummy; }; struct ReadPoolCtx_s { int dummy; };
static FILE* wfile; static FILE* rfile;
void AIO_WritePool_setFile(WritePoolCtx_t* c, FILE* f) { (void)c; wfile = f; }
FILE* AIO_WritePool_getFile(const WritePoolCtx_t* c) { (void)c; return wfile; }
int AIO_WritePool_closeFile(WritePoolCtx_t* c)
{   int const r = nondet_bool(); (void)c; wfile = NULL; fs[1].open = 0;
    if (r && fs[1].tag == T_COMPLETE) fs[1].tag = T_PARTIAL;          /* a failing close means the data may not have reached the disk */
    crashpoint(); return r; }
void AIO_WritePool_setAsync(WritePoolCtx_t* c, int a) { (void)c; (void)a; }
void AIO_ReadPool_setAsync(ReadPoolCtx_t* c, int a) { (void)c; (void)a; }
void AIO_ReadPool_setFile(ReadPoolCtx_t* c, FILE* f) { (void)c; rfile = f; }
FILE* AIO_ReadPool_getFile(const ReadPoolCtx_t* c) { (void)c; return rfile; }
int AIO_ReadPool_closeFile(ReadPoolCtx_t* c) { (void)c; rfile = NULL; fs[0].open = 0; return 0; }

/* the codec loops: contract stubs */
static int codec_verdict(void) { int const r = nondet_bool(); VCHECKM(fs[1].exists && fs[1].open > 0, "the codec runs only with an open destination"); if (r == 0) fs[1].tag = T_COMPLETE; return r; }
int FIO_compressFilename_internal(FIO_ctx_t* const fCtx, FIO_prefs_t* const prefs, cRess_t ress, const char* dstFileName, const char* srcFileName, int compressionLevel)
{ (void)fCtx; (void)prefs; (void)ress; (void)dstFileName; (void)srcFileName; (void)compressionLevel; return codec_verdict(); }
int FIO_decompressFrames(FIO_ctx_t* const fCtx, dRess_t ress, const FIO_prefs_t* const prefs, const char* dstFileName, const char* srcFileName)
{ (void)fCtx; (void)ress; (void)prefs; (void)dstFileName; (void)srcFileName; return codec_verdict(); }

void harness(void)
{
    static FIO_prefs_t prefs; static FIO_ctx_t fctx; static struct WritePoolCtx_s w; static struct ReadPoolCtx_s r;
    int res, dstPreexisted;
    prefs.removeSrcFile = nondet_bool(); prefs.overwrite = nondet_bool(); prefs.testMode = 0; prefs.sparseFileSupport = nondet_bool(); prefs.excludeCompressedFiles = 0;
    fs[0].exists = 1; fs[0].regular = 1; fs[0].tag = T_SRC;
    fs[1].exists = nondet_bool(); fs[1].regular = 1; fs[1].tag = fs[1].exists ? T_OTHER : T_NONE; dstPreexisted = fs[1].exists;
    g_display_prefs.displayLevel = nondet_bool() ? 1 : 2;
#ifdef H_COMPRESS
    {   static cRess_t ress; ress.writeCtx = &w; ress.readCtx = &r;
        res = FIO_compressFilename_srcFile(&fctx, &prefs, ress, "b", "a", 3); }
#else
    {   static dRess_t ress; ress.writeCtx = &w; ress.readCtx = &r;
        res = FIO_decompressSrcFile(&fctx, &prefs, ress, "b", "a"); }
#endif
    VCHECKM(fs[0].exists || (fs[1].exists && fs[1].tag == T_COMPLETE), "final state: source kept, or destination complete");
    if (res != 0) {
        VCHECKM(fs[0].exists && fs[0].tag == T_SRC, "a failed operation never removed the source");
        /* no artefact left, provided the remove() the tool issued succeeded (a failing remove is an OS fault outside the claim) */
        if (!g_removeFailed) VCHECKM(!(fs[1].exists && fs[1].tag == T_PARTIAL), "a failed operation leaves no partial output file behind (given the remove() it issued succeeded)");
    } else {
        VCHECKM(fs[1].exists && fs[1].tag == T_COMPLETE && fs[1].open == 0, "success only with a complete, closed destination");
        if (!prefs.removeSrcFile) VCHECKM(fs[0].exists, "source removed only on request");
    }
    if (dstPreexisted && !prefs.overwrite && !g_userSaidYes)
        VCHECKM(fs[1].exists && fs[1].tag == T_OTHER, "a pre-existing destination is never touched unless forced (-f) or the user confirmed");
    VCHECKM(!g_srcRemovedWhileHandler, "the source is never removed while the interrupt handler (which deletes the destination) is still armed");
    VWITNESS(res == 0 && !fs[0].exists);
    VWITNESS(res != 0 && dstPreexisted);
    VWITNESS(res == 0 && dstPreexisted && prefs.overwrite);
}
