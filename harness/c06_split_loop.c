/* @harness c06.split_loop
 * @props C06 C05
 * @tier quick
 * @functions ZSTD_compressBlock_splitBlock_internal
 * @bounds 0..3 split points (1..4 partitions); block size 1..128 KiB; destination capacity: every value 0..(128 KiB + 64); every partition's compressed size: ANY value the per-partition compressor may return within the room it was GIVEN
 * @assume the function text is re-extracted from /repo at every run and compiled against contract stubs of its five callees (ZSTD_deriveBlockSplits: any increasing partition list; ZSTD_deriveSeqStoreChunk / byte counters: any sizes summing to at most the block; ZSTD_compressSeqStore_singleBlock: error, or any size <= the capacity argument it received)
 * @outside the per-partition compressor itself (its own capacity discipline: c06.writers); the split heuristic
 * @prep extract lib/compress/zstd_compress.c ZSTD_compressBlock_splitBlock_internal split_internal.inc
 * @link lib/common/zstd_common.c lib/common/error_private.c
 * @mem loop
 * @cbmc --unwind 6 --unwindset __builtin_memset.0:120,__builtin_memcpy.0:120
 * @timeout 300
 * @memgb 4
 */
#include "v.h"
#include <string.h>
#include "compress/zstd_compress_internal.h"

static BYTE* g_dst; static size_t g_cap;           /* the caller's destination */
static const BYTE* g_src; static size_t g_blockSize;
static size_t g_written, g_srcGiven, g_countBudget; static int g_calls; static unsigned g_nsplits;

static size_t ZSTD_deriveBlockSplits(ZSTD_CCtx* zc, U32 partitions[], U32 nbSeq)
{
    unsigned i; (void)zc;
    for (i = 0; i < 4; i++) partitions[i] = (i + 1) * (nbSeq / 5 + 1);
    return g_nsplits;
}
static void ZSTD_deriveSeqStoreChunk(seqStore_t* resultSeqStore, const seqStore_t* originalSeqStore, size_t startIdx, size_t endIdx)
{ (void)originalSeqStore; (void)startIdx; (void)endIdx; resultSeqStore->maxNbSeq = nondet_size(); }
static size_t ZSTD_countSeqStoreLiteralsBytes(const seqStore_t* const seqStore)
{ size_t const n = nondet_size(); (void)seqStore; VASSUME(n <= g_countBudget); g_countBudget -= n; return n; }
static size_t ZSTD_countSeqStoreMatchBytes(const seqStore_t* const seqStore)
{ size_t const n = nondet_size(); (void)seqStore; VASSUME(n <= g_countBudget); g_countBudget -= n; return n; }
static size_t ZSTD_compressSeqStore_singleBlock(ZSTD_CCtx* zc, const seqStore_t* const seqStore, repcodes_t* const dRep, repcodes_t* const cRep,
                                  void* dst, size_t dstCapacity, const void* src, size_t srcSize, U32 lastBlock, U32 isPartition)
{
    size_t r = nondet_size();
    (void)zc; (void)seqStore; (void)dRep; (void)cRep; (void)lastBlock; (void)isPartition;
    g_calls++;
    VCHECKM((BYTE*)dst == g_dst + g_written, "each partition is written right after the previous one");
    VCHECKM(dstCapacity <= g_cap - g_written, "the room announced to a partition's compressor never exceeds what is left of the caller's destination");
    VCHECKM((const BYTE*)src == g_src + g_srcGiven && srcSize <= g_blockSize - g_srcGiven, "partitions tile the source block in order");
    g_srcGiven += srcSize;
    if (nondet_bool()) return ERROR(dstSize_tooSmall);
    VASSUME(r <= dstCapacity);
    g_written += r;
    return r;
}
#include "split_internal.inc"

static ZSTD_CCtx g_cctx; static ZSTD_compressedBlockState_t g_prev;
static BYTE g_dstArena[8], g_srcArena[8];     /* never dereferenced: only addresses are used by the stubs */

void harness(void)
{
    size_t r; U32 const lastBlock = nondet_bool(), nbSeq = nondet_uint();
    g_cap = nondet_size(); g_blockSize = nondet_size(); g_nsplits = nondet_uint();
    VASSUME(g_cap <= (128 << 10) + 64 && g_blockSize >= 1 && g_blockSize <= (128 << 10) && g_nsplits <= 3 && nbSeq <= 1000);
    g_dst = g_dstArena; g_src = g_srcArena; g_countBudget = g_blockSize;
    g_cctx.blockState.prevCBlock = &g_prev; g_cctx.blockSize = 128 << 10;
    r = ZSTD_compressBlock_splitBlock_internal(&g_cctx, g_dst, g_cap, g_src, g_blockSize, lastBlock, nbSeq);
    if (!ZSTD_isError(r)) {
        VCHECKM(r <= g_cap, "bytes reported written never exceed the destination capacity");
        VCHECKM(r == g_written, "return value is the sum of the partitions written");
        VCHECKM(g_srcGiven == g_blockSize, "every source byte of the block belongs to exactly one partition");
        VCHECKM(g_calls == (int)g_nsplits + 1, "one compressed partition per derived partition");
        VWITNESS(g_nsplits == 3 && r > 100);
        VWITNESS(g_nsplits == 0);
    }
    VWITNESS(ZSTD_isError(r) && g_calls == 2);
}
