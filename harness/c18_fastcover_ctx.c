/* @harness c18.fastcover_ctx
 * @props C18
 * @tier quick
 * @functions FASTCOVER_ctx_init FASTCOVER_computeFrequency FASTCOVER_hashPtrToIndex COVER_sum FASTCOVER_ctx_destroy
 * @bounds 6 samples of any sizes 0..12 bytes each (content fixed to zero: only sizes matter here), d in {6, 8}, f = 4, acceleration skip 0..2, split point 1.0 (all samples train) or 0.84 (5 train / 1 test); samples buffer EXACTLY the total size (any read past the last sample leaves the object)
 * @assume obligation on the d-mer count: the segment selection later hashes positions 0..nbDmers-1 of the training samples and each hash reads 8 bytes (FASTCOVER_hashPtrToIndex uses ZSTD_hash6Ptr / ZSTD_hash8Ptr, both 8-byte loads), so position nbDmers-1 + 8 must not exceed the training samples
 * @outside NARROW CLAIM: segment selection, optimiser threads, dictionary quality and determinism are not decided; allocation failures of calloc are not injected here
 * @link lib/common/zstd_common.c lib/common/error_private.c
 * @mem native
 * @cbmc --unwind 16 --object-bits 11
 * @timeout 300
 * @memgb 6
 */
#include "v.h"
#include <string.h>
#include <stdlib.h>
#include "dictBuilder/fastcover.c"
int g_displayLevel_unused;
/* COVER_sum & friends live in cover.c; only COVER_sum is reached */
size_t COVER_sum(const size_t* samplesSizes, unsigned nbSamples) { size_t s = 0; unsigned i; for (i = 0; i < nbSamples; ++i) s += samplesSizes[i]; return s; }

#define NS 6
void harness(void)
{
    static size_t sizes[NS]; FASTCOVER_ctx_t ctx; FASTCOVER_accel_t accel; size_t total = 0, train; unsigned i;
    unsigned const d = nondet_bool() ? 6 : 8;
    int const all = nondet_bool();
    double const splitPoint = all ? 1.0 : 0.84;
    unsigned char* samples; size_t r;
    for (i = 0; i < NS; i++) { sizes[i] = nondet_size(); VASSUME(sizes[i] <= 12); total += sizes[i]; }
    samples = (unsigned char*)calloc(total ? total : 1, 1); VASSUME(samples);
    accel.finalize = 100; accel.skip = nondet_uint(); VASSUME(accel.skip <= 2);
    r = FASTCOVER_ctx_init(&ctx, samples, sizes, NS, d, splitPoint, 4, accel);
    train = all ? total : total - sizes[NS - 1];
    if (!ZSTD_isError(r)) {
        VCHECKM(total >= 8, "accepted only when there is at least one full 8-byte d-mer window");
        VCHECKM(ctx.nbTrainSamples == (all ? NS : NS - 1) && ctx.nbTestSamples >= 1, "train / test split as documented");
        VCHECKM(train < 8 || ctx.nbDmers + 7 <= train, "every d-mer position counted can be hashed (8-byte read) inside the training samples");
        VCHECKM(train >= 8 || ctx.nbDmers == 0, "a training part shorter than one hash window yields no d-mer positions (or is refused)");
        VCHECKM(ctx.offsets[NS] == total, "sample offsets are the prefix sums of the sizes");
        FASTCOVER_ctx_destroy(&ctx);
        VWITNESS(d == 6 && train == 20);
        VWITNESS(!all);
    }
    VWITNESS(ZSTD_isError(r));
}
