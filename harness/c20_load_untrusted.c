/* @harness c20.load_untrusted
 * @props C20 C03
 * @tier quick
 * @functions ZSTD_seekable_loadSeekTable ZSTD_seekable_initBuff ZSTD_seekable_initAdvanced ZSTD_seekable_read_buff ZSTD_seekable_seek_buff ZSTD_seekable_getNumFrames ZSTD_seekable_getFrameCompressedOffset ZSTD_seekable_getFrameDecompressedOffset
 * @bounds an archive given as memory buffer of FS bytes (one instance per size; quick: 17, 41, 53 and 53 with a 36-byte loader buffer; thorough adds 9, 25, 29, 49, 77, 89), EVERY byte arbitrary - so every footer (any 32-bit frame count, any descriptor byte), every skippable-frame header, every table body of that size, well-formed or not; loader buffer shrunk to 32 bytes (regex on a scratch copy; the refill branch is reached from the 3rd/4th entry on)
 * @bounds decided: memory safety of the loader on arbitrary bytes; by the time the loader allocates its table (= it has accepted the headers) the announced layout is consistent in 64-bit arithmetic: 17 + entrySize * numFrames == announced skippable size + 8 <= file size; on success, for an ARBITRARY frame index, the cumulative offsets and the checksum equal the little-endian fields of the file
 * @assume malloc is a harness allocator (macro inside the translation unit): requests up to 24 * 8 bytes get an exact-size object, larger requests FAIL (returning NULL is legal behaviour of malloc and the loader handles it), so tables of more than 7 frames are not traversed: the consistency obligation above is asserted AT the allocation request for every frame count
 * @outside traversal of tables with more than 7 entries; FILE-based access (same loader, fread/fseek instead of the buffer wrapper); the zstd decoder behind the reader (stub, not reached)
 * @prep sed contrib/seekable_format/zstdseek_decompress.c zseek_ld.c define\s+SEEKABLE_BUFF_SIZE\s+ZSTD_BLOCKSIZE_MAX define\x20SEEKABLE_BUFF_SIZE\x2032
 * @prep sed contrib/seekable_format/zstdseek_decompress.c zseek_ld36.c define\s+SEEKABLE_BUFF_SIZE\s+ZSTD_BLOCKSIZE_MAX define\x20SEEKABLE_BUFF_SIZE\x2036
 * @link lib/common/zstd_common.c lib/common/error_private.c
 * @mem loop
 * @cbmc --unwind 9 --unwindset __builtin_memcpy.0:38,__builtin_memmove.0:38,__builtin_memmove.1:38,harness.0:100,harness.1:10
 * @timeout 1200
 * @memgb 6
 * @instance f9 tier=thorough -DFS=9
 * @instance f17 -DFS=17
 * @instance f25 tier=thorough -DFS=25
 * @instance f29 tier=thorough -DFS=29
 * @instance f41 -DFS=41
 * @instance f49 tier=thorough -DFS=49
 * @instance f53 -DFS=53
 * @instance g49 tier=thorough -DFS=49 -DLDBUF=36
 * @instance g53 -DFS=53 -DLDBUF=36
 * @instance f89 tier=thorough timeout=2400 memgb=14 -DFS=89
 * @instance f77 tier=thorough timeout=2400 memgb=14 -DFS=77
 */
#include "v.h"
#include <string.h>
#include <stdlib.h>
#include <stdio.h>
#include <limits.h>
#include <assert.h>

#ifndef FS
#define FS 25
#endif
#define V_MAXENT 8
/* ---- harness allocator, substituted for malloc/free INSIDE the seekable translation unit only ---- */
static const unsigned char* g_file; static unsigned long long g_reqCount; static int g_allocs; static void* g_tab;
static void* v_malloc(size_t n);
static void v_free(void* p) { VCHECKM(p == NULL || p == g_tab, "only the table is ever freed"); }
#define malloc v_malloc
#define free   v_free
/* the seekable code calls libc memcpy/memmove directly (not zstd's porting layer): route them to the harness memory model */
#define memcpy  __builtin_memcpy
#define memmove __builtin_memmove
#if defined(LDBUF) && LDBUF == 36
#include "zseek_ld36.c"    /* 36-byte loader buffer: refills happen with a non-empty unread remainder (4 bytes) from the first refill on */
#else
#include "zseek_ld.c"      /* 32-byte loader buffer: same divisibility pattern as the real 128 KiB one (first refill with empty remainder; the 12-byte entries leave 8 bytes from the second refill on: instance f89) */
#endif
#undef malloc
#undef free
#undef memcpy
#undef memmove

size_t ZSTD_DCtx_reset(ZSTD_DCtx* dctx, ZSTD_ResetDirective reset) { (void)dctx; (void)reset; return 0; }
size_t ZSTD_initDStream(ZSTD_DStream* zds) { (void)zds; return 0; }
XXH_errorcode XXH64_reset(XXH64_state_t* s, XXH64_hash_t seed) { (void)s; (void)seed; return XXH_OK; }

static U32 le32(const unsigned char* p) { return (U32)p[0] | ((U32)p[1] << 8) | ((U32)p[2] << 16) | ((U32)p[3] << 24); }

static seekEntry_t g_tabmem[V_MAXENT];
static void* v_malloc(size_t n)
{
    /* the only allocation of the loader: sizeof(seekEntry_t) * (numFrames + 1), requested after both headers were accepted */
    U32 const numFrames = le32(g_file + FS - 9);
    unsigned const entrySize = (g_file[FS - 5] & 0x80) ? 12 : 8;
    unsigned long long const need = 17ULL + (unsigned long long)entrySize * numFrames;     /* 64-bit: cannot wrap */
    g_allocs++;
    VCHECKM(need <= (unsigned long long)FS, "a seek table is accepted (its table allocated) only if the announced table fits in the file: no 32-bit wrap of entrySize * numFrames");
    if (need <= (unsigned long long)FS) VCHECKM((unsigned long long)le32(g_file + FS - need + 4) + 8 == need && le32(g_file + FS - need) == 0x184D2A5Eu, "accepted seek table: skippable header with the seekable magic nibble and the exact size, where the footer says it starts");
    VCHECKM(n / sizeof(seekEntry_t) == (size_t)numFrames + 1 && n % sizeof(seekEntry_t) == 0, "table allocation holds numFrames + 1 entries (no wrap of numFrames + 1)");
    if (n > sizeof(seekEntry_t) * V_MAXENT) return NULL;           /* big tables: allocation fails (legal), not traversed here */
    if (n % sizeof(seekEntry_t) != 0 || n == 0) return NULL;
    /* tail slice of a fixed table: writing entry numFrames + 1 or beyond leaves the object */
    g_tab = g_tabmem + (V_MAXENT - n / sizeof(seekEntry_t));
    return g_tab;
}

static ZSTD_seekable g_zs;
static unsigned char g_buf[FS];

void harness(void)
{
    ZSTD_seekable* const zs = &g_zs; size_t r; int i;
    for (i = 0; i < FS; i++) g_buf[i] = nondet_uchar();
    g_file = g_buf;
    r = ZSTD_seekable_initBuff(zs, g_buf, FS);
    if (!ZSTD_isError(r)) {
        U32 const numFrames = le32(g_buf + FS - 9);
        unsigned const cks = (g_buf[FS - 5] & 0x80) != 0, entrySize = cks ? 12 : 8;
        unsigned long long const start = (unsigned long long)FS - (17ULL + (unsigned long long)entrySize * numFrames) + 8;    /* first entry */
        unsigned const k = nondet_uint(); unsigned j; unsigned long long c = 0, d = 0;
        VCHECKM(g_allocs == 1, "success implies the table was allocated exactly once");
        VCHECKM(ZSTD_seekable_getNumFrames(zs) == numFrames && numFrames < V_MAXENT, "the loaded table has the announced number of frames");
        VCHECKM((g_buf[FS - 5] & 0x7C) == 0 && le32(g_buf + FS - 4) == 0x8F92EAB1u, "success implies the seekable magic number and zero reserved bits");
        VASSUME(k <= numFrames);
        for (j = 0; j < V_MAXENT; j++) if (j < k) { c += le32(g_buf + start + (unsigned long long)entrySize * j); d += le32(g_buf + start + (unsigned long long)entrySize * j + 4); }
        VCHECKM(zs->seekTable.entries[k].cOffset == c && zs->seekTable.entries[k].dOffset == d, "entry k holds the sums of the first k compressed / decompressed sizes stored in the file");
        if (cks && k < numFrames) VCHECKM(zs->seekTable.entries[k].checksum == le32(g_buf + start + (unsigned long long)entrySize * k + 8), "entry k holds the checksum stored in the file");
        VCHECKM(zs->seekTable.checksumFlag == (int)cks, "checksum flag as stored");
#if FS >= 17
        VWITNESS(numFrames == 0);
#endif
#if FS >= 41
        VWITNESS(numFrames == (FS - 17) / 8 && !cks);
#endif
#if FS == 29 || FS == 41 || FS == 53 || FS == 77
        VWITNESS(cks && numFrames == (FS - 17) / 12);
#endif
    } else {
        VWITNESS(g_allocs == 0);
    }
}
