"""prep.py -- textual re-instantiation of code from the CURRENT /repo sources.

No source hooks are used: when a harness must redirect a callee that is `static`
in the same file, or needs one function body in isolation, the text is re-derived
from the working tree at every run.  If the expected definition cannot be found the
harness fails to build and is reported inconclusive (never as a violation)."""
import re

def _strip_map(txt):
    """return text with comments/strings/char literals blanked (same length)"""
    out = list(txt); i = 0; n = len(txt)
    while i < n:
        c = txt[i]
        if c == '/' and i + 1 < n and txt[i+1] == '*':
            j = txt.find('*/', i + 2); j = n if j < 0 else j + 2
            for k in range(i, j):
                if out[k] != '\n': out[k] = ' '
            i = j
        elif c == '/' and i + 1 < n and txt[i+1] == '/':
            j = txt.find('\n', i); j = n if j < 0 else j
            for k in range(i, j): out[k] = ' '
            i = j
        elif c == '"' or c == "'":
            q = c; j = i + 1
            while j < n and txt[j] != q:
                if txt[j] == '\\': j += 1
                j += 1
            for k in range(i + 1, min(j, n)):
                if out[k] != '\n': out[k] = ' '
            i = j + 1
        else:
            i += 1
    return ''.join(out)

def find_def(txt, name):
    """locate the definition of function `name`: returns (start, name_pos, body_open, body_close_exclusive)"""
    s = _strip_map(txt)
    for m in re.finditer(r'\b' + re.escape(name) + r'\s*\(', s):
        # (no global brace-depth test: #if/#else branches make brace counts unreliable; a definition is
        #  recognised by the '{' that follows its parameter list, which a call or declaration never has)
        prev = s[:m.start()].rstrip()
        if prev and prev[-1] in '=(,!&|?:+-<>': continue        # expression context
        # match parens
        i = m.end() - 1; d = 0
        while i < len(s):
            if s[i] == '(': d += 1
            elif s[i] == ')':
                d -= 1
                if d == 0: break
            i += 1
        j = i + 1
        while j < len(s) and s[j] in ' \t\r\n': j += 1
        if j >= len(s) or s[j] != '{': continue     # declaration or call
        # start of the definition: after the previous ';' or '}' or preprocessor line at depth 0
        k = m.start()
        while k > 0:
            ch = s[k-1]
            if ch in ';}': break
            if ch == '\n':
                # stop at a preprocessor line above
                ls = s.rfind('\n', 0, k - 1) + 1
                if s[ls:k-1].lstrip().startswith('#'): break
            k -= 1
        # brace match body
        d = 0; e = j
        while e < len(s):
            if s[e] == '{': d += 1
            elif s[e] == '}':
                d -= 1
                if d == 0: break
            e += 1
        return k, m.start(), j, e + 1
    raise RuntimeError('definition of %s not found' % name)

def extract(src, funcs, out):
    txt = open(src).read()
    parts = []
    for f in funcs:
        a, _, _, b = find_def(txt, f)
        parts.append('/* ---- %s, extracted verbatim from %s ---- */\n' % (f, src) + txt[a:b].lstrip('\n') + '\n')
    open(out, 'w').write('\n'.join(parts))

def rename_def(src, func, new, out):
    txt = open(src).read()
    _, p, _, _ = find_def(txt, func)
    txt = txt[:p] + new + txt[p + len(func):]
    open(out, 'w').write(txt)

def resub(src, out, pattern, repl):
    txt = open(src).read()
    repl = repl.replace('\\x20', ' ').replace('\\x2a', '*')      # prep arguments are whitespace-separated: \x20 stands for a space
    txt2, n = re.subn(pattern, lambda m: repl, txt, flags=re.S | re.M)
    if n == 0: raise RuntimeError('pattern %r not found in %s' % (pattern, src))
    open(out, 'w').write(txt2)
