#!/usr/bin/env python3
"""regenerate /verif/MANIFEST.json from the harness registry + the per-property texts below"""
import json, os, sys, subprocess, importlib.util, importlib.machinery
VERIF = os.path.dirname(os.path.dirname(os.path.abspath(__file__)))
loader = importlib.machinery.SourceFileLoader('checkmod', os.path.join(VERIF, 'check'))
spec = importlib.util.spec_from_loader('checkmod', loader)
chk = importlib.util.module_from_spec(spec); loader.exec_module(chk)

TEXT = json.load(open(os.path.join(VERIF, 'vlib', 'levels.json')))

def main():
    hs = chk.all_harnesses()
    byprop = {}
    for h in hs:
        for p in h['props']: byprop.setdefault(p, []).append(h)
    props = [json.loads(l) for l in open(os.path.join(VERIF, 'properties.jsonl'))]
    checks, na = [], []
    for pr in props:
        pid = pr['id']
        t = TEXT.get(pid, {})
        q = [h for h in byprop.get(pid, []) if h['tier'] == 'quick']
        if not q or t.get('not_applicable'):
            na.append(dict(property_id=pid, reason=t.get('not_applicable') or 'no solver-based check built for this property yet (see DESIGN.md)'))
            continue
        allh = byprop[pid]
        checks.append(dict(
            property_id=pid,
            quick_cmd='./check %s --tier quick' % pid,
            thorough_cmd='./check %s --tier thorough' % pid,
            evidence_file='/verif/evidence/%s.json' % pid,
            replay_cmd_template='./check --replay {path}',
            engine='cbmc',
            level_claimed=dict(category='model_checking', text=t['text'], design_ref=t.get('design_ref', 'DESIGN.md section 3, ' + pid)),
            level_note=t['note'] + ' Harnesses: quick = ' + ', '.join(h['name'] for h in q) +
                       ('; thorough adds ' + ', '.join(h['name'] for h in allh if h['tier'] != 'quick') if any(h['tier'] != 'quick' for h in allh) else '') + '.',
            technique=t.get('technique', 'bounded symbolic execution of the real C sources with CBMC 6.11 (goto-cc -> cbmc -> SAT/SMT), counterexamples replayed natively under ASan/UBSan')))
    m = dict(version=1,
             setup_cmd='true',
             hooks=dict(guard='ZSTD_VERIF', enable='no source hooks: harnesses #include or link the real translation units from /repo and re-derive scratch copies textually at every run (vlib/prep.py)',
                        baseline_off_cmd='cd /repo && make -k -j8 check VERBOSE=1', source_commits=[], add_only=True),
             engines=[dict(name='cbmc', path='/verif/check', serves_properties=[c['property_id'] for c in checks],
                           kind_free_text='CBMC 6.11 bounded model checker over goto-cc builds of the real zstd sources; back ends minisat (default), cadical, kissat, z3, cvc5; python driver with native ASan/UBSan replay of solver counterexamples')],
             checks=checks,
             notes='See DESIGN.md. Genuine defects found and repaired are recorded in known_findings.json (fix: commits in /repo).',
             not_applicable=na)
    json.dump(m, open(os.path.join(VERIF, 'MANIFEST.json'), 'w'), indent=1)
    print('MANIFEST: %d checks, %d not_applicable' % (len(checks), len(na)))

if __name__ == '__main__':
    main()
