/* v.h -- common harness vocabulary (CBMC build and native replay build).
 *
 * CBMC build  : the driver passes -DVERIF_CBMC=1; obligations are __CPROVER_assert.
 * Native build: gcc -fsanitize=address,undefined; nondet_*() read the values the
 *               solver chose (vstubs/replay_rt.c); VCHECK prints and exits 1.
 *
 * NOTE zstd's own `assert` is ((void)0) at DEBUGLEVEL=0, and programs/fileio.c and
 * the seekable sources define their own CHECK: never use those names.
 */
#ifndef VERIF_V_H
#define VERIF_V_H
#include <stddef.h>
#include <stdint.h>

/* symbolic inputs: bodyless for CBMC; defined in replay_rt.c for native runs */
int                nondet_int(void);
unsigned           nondet_uint(void);
unsigned char      nondet_uchar(void);
unsigned short     nondet_ushort(void);
unsigned long long nondet_u64(void);
size_t             nondet_size(void);
_Bool              nondet_bool(void);
/* Every draw goes through a wrapper with a body, so that each one shows up in CBMC's trace as an
 * assignment to the local `v` inside a function named v_nd_* (a bare `x = nondet_int();` leaves no
 * identifiable step). The driver replays these steps, in order, natively. */
#ifndef VERIF_REPLAY_RT
static inline int                v_nd_int(void)    { int v = nondet_int(); return v; }
static inline unsigned           v_nd_uint(void)   { unsigned v = nondet_uint(); return v; }
static inline unsigned char      v_nd_uchar(void)  { unsigned char v = nondet_uchar(); return v; }
static inline unsigned short     v_nd_ushort(void) { unsigned short v = nondet_ushort(); return v; }
static inline unsigned long long v_nd_u64(void)    { unsigned long long v = nondet_u64(); return v; }
static inline size_t             v_nd_size(void)   { size_t v = nondet_size(); return v; }
static inline _Bool              v_nd_bool(void)   { _Bool v = nondet_bool(); return v; }
#define nondet_int    v_nd_int
#define nondet_uint   v_nd_uint
#define nondet_uchar  v_nd_uchar
#define nondet_ushort v_nd_ushort
#define nondet_u64    v_nd_u64
#define nondet_size   v_nd_size
#define nondet_bool   v_nd_bool
#endif

#ifdef VERIF_CBMC
#  define VCHECK(c)      __CPROVER_assert((c), "VCHECK: " #c)
#  define VCHECKM(c,msg) __CPROVER_assert((c), "VCHECK: " msg)
#  define VASSUME(c)     __CPROVER_assume(c)
   /* reachability witness: this "assertion" MUST be reported violated */
#  define VWITNESS(c)    __CPROVER_assert(!(c), "VWITNESS: " #c)
#  define V_R_OK(p,n)    __CPROVER_r_ok((p),(n))
#  define V_W_OK(p,n)    __CPROVER_w_ok((p),(n))
#  define V_HAVOC(p,n)   v_havoc_bytes((p),(n))
#  define V_SAME_OBJ(a,b) __CPROVER_same_object((a),(b))
#else
#  include <stdio.h>
#  include <stdlib.h>
   void v_fail(const char* what, const char* file, int line);
   void v_assume_failed(const char* what, const char* file, int line);
   void v_witness_hit(const char* what);
#  define VCHECK(c)      do { if (!(c)) v_fail(#c, __FILE__, __LINE__); } while (0)
#  define VCHECKM(c,msg) do { if (!(c)) v_fail(msg, __FILE__, __LINE__); } while (0)
#  define VASSUME(c)     do { if (!(c)) v_assume_failed(#c, __FILE__, __LINE__); } while (0)
#  define VWITNESS(c)    do { if (c) v_witness_hit(#c); } while (0)
#  define V_R_OK(p,n)    1
#  define V_W_OK(p,n)    1
#  define V_HAVOC(p,n)   ((void)0)
#  define V_SAME_OBJ(a,b) 1
#endif

void v_havoc_bytes(void* p, size_t n);

/* Arena rule (DESIGN 1.2-3): every buffer handed to zstd code is a tail slice of
 * one arena with >= V_SLACK bytes of front slack. */
#define V_SLACK 64
#define V_CANARY 0xA5

static inline void v_fill_nondet(void* p, size_t n) {
    unsigned char* b = (unsigned char*)p; size_t i;
    for (i = 0; i < n; i++) b[i] = nondet_uchar();
}
#endif
