/* memory builtins -> CBMC's own array-theory models (best for constant sizes) */
#include <string.h>
#ifdef VERIF_CBMC
void *__builtin_memcpy(void *d, const void *s, size_t n){ return memcpy(d,s,n);}
void *__builtin_memmove(void *d, const void *s, size_t n){ return memmove(d,s,n);}
void *__builtin_memset(void *d, int c, size_t n){ return memset(d,c,n);}
void v_havoc_bytes(void* p, size_t n){ if (n) __CPROVER_havoc_slice(p, n); }
#else
void v_havoc_bytes(void* p, size_t n){ (void)p; (void)n; }
#endif
