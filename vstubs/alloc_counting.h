/* counting ZSTD_customMem: the index of the failing allocation is a SYMBOLIC variable (vc_fail_at,
 * unconstrained: also covers "no failure"); a live-pointer set makes double free, foreign free and
 * leaks solver obligations. Include after v.h. */
#ifndef VERIF_ALLOC_COUNTING_H
#define VERIF_ALLOC_COUNTING_H
#include <stdlib.h>
#include <string.h>
#define VC_MAXLIVE 12
static unsigned vc_count, vc_fail_at, vc_fail_at2, vc_failed;
static void* vc_live[VC_MAXLIVE]; static size_t vc_liveSize[VC_MAXLIVE]; static int vc_nlive;
static size_t vc_totalLive;
static void* vc_alloc(void* opaque, size_t size)
{
    int i; void* p;
    (void)opaque;
    vc_count++;
    if (vc_count == vc_fail_at || vc_count == vc_fail_at2) { vc_failed++; return NULL; }
    p = malloc(size ? size : 1);
    VASSUME(p != NULL);
#ifndef VERIF_CBMC
    memset(p, 0xA5, size ? size : 1);          /* CBMC's malloc content is arbitrary; natively make it visibly non-zero */
#endif
    for (i = 0; i < VC_MAXLIVE; i++) if (vc_live[i] == NULL) { vc_live[i] = p; vc_liveSize[i] = size; vc_nlive++; vc_totalLive += size; return p; }
    VCHECKM(0, "live-set large enough for this scenario");
    return p;
}
static void vc_free(void* opaque, void* p)
{
    int i;
    (void)opaque;
    if (p == NULL) return;
    for (i = 0; i < VC_MAXLIVE; i++) if (vc_live[i] == p) { vc_live[i] = NULL; vc_nlive--; vc_totalLive -= vc_liveSize[i]; free(p); return; }
    VCHECKM(0, "custom free receives only pointers that the custom allocator handed out and that are still live (no double / foreign / garbage free)");
}
#define VC_MEM { vc_alloc, vc_free, NULL }
#define VC_NOLEAK() VCHECKM(vc_nlive == 0, "every block obtained from the caller's allocator has been returned through the caller's free")
#endif
