/* replay_rt.c -- native replay runtime: feeds the solver's nondet choices (in
 * trace order) to the same harness source, built by gcc with ASan+UBSan against
 * the real zstd code. Exit codes: 0 harness completed with no failed check,
 * 1 VCHECK failed (printed), 3 an assumption was false (encoding divergence),
 * 4 value stream exhausted.  Sanitizer reports abort with their own exit code. */
#include <stdio.h>
#include <stdlib.h>
#include <string.h>
#define VERIF_REPLAY_RT 1
#include "v.h"
static unsigned long long* g_vals; static size_t g_n, g_i; static int g_exhausted;
static void v_load(const char* path){
  FILE* f = fopen(path, "r"); if (!f) { perror(path); exit(2); }
  size_t cap = 1024; g_vals = malloc(cap * sizeof *g_vals);
  char line[256];
  while (fgets(line, sizeof line, f)) {
    if (line[0]=='#' || line[0]=='\n') continue;
    if (g_n == cap) { cap *= 2; g_vals = realloc(g_vals, cap * sizeof *g_vals); }
    g_vals[g_n++] = strtoull(line, NULL, 0);
  }
  fclose(f);
}
static unsigned long long nextv(void){
  if (g_i >= g_n) { g_exhausted = 1; return 0; }
  return g_vals[g_i++];
}
int nondet_int(void){ return (int)nextv(); }
unsigned nondet_uint(void){ return (unsigned)nextv(); }
unsigned char nondet_uchar(void){ return (unsigned char)nextv(); }
unsigned short nondet_ushort(void){ return (unsigned short)nextv(); }
unsigned long long nondet_u64(void){ return nextv(); }
size_t nondet_size(void){ return (size_t)nextv(); }
_Bool nondet_bool(void){ return nextv() != 0; }
void v_fail(const char* what, const char* file, int line){
  printf("REPLAY-VCHECK-FAILED: %s (%s:%d)\n", what, file, line); fflush(stdout); exit(1); }
void v_assume_failed(const char* what, const char* file, int line){
  printf("REPLAY-ASSUME-FALSE: %s (%s:%d)\n", what, file, line); fflush(stdout); exit(3); }
void v_witness_hit(const char* what){ printf("REPLAY-WITNESS: %s\n", what); }
void harness(void);
int main(int argc, char** argv){
  if (argc < 2) { fprintf(stderr, "usage: %s values.txt\n", argv[0]); return 2; }
  v_load(argv[1]);
  harness();
  if (g_exhausted) { printf("REPLAY-EXHAUSTED: value stream too short\n"); return 4; }
  printf("REPLAY-COMPLETED: no check failed\n");
  return 0;
}
