/* hybrid: byte loop for n <= 16, CBMC array copy above */
#include <string.h>
#ifdef VERIF_CBMC
void *__builtin_memcpy(void *d, const void *s, size_t n){ if (n>16) return memcpy(d,s,n); unsigned char*dd=d; const unsigned char*ss=s; for(size_t i=0;i<n;i++) dd[i]=ss[i]; return d;}
void *__builtin_memmove(void *d, const void *s, size_t n){ if (n>16) return memmove(d,s,n); unsigned char*dd=d; const unsigned char*ss=s; if ((size_t)dd - (size_t)ss >= n) { for(size_t i=0;i<n;i++) dd[i]=ss[i]; } else { for(size_t i=n;i>0;i--) dd[i-1]=ss[i-1]; } return d;}
void *__builtin_memset(void *d, int c, size_t n){ if (n>16) return memset(d,c,n); unsigned char*dd=d; for(size_t i=0;i<n;i++) dd[i]=(unsigned char)c; return d;}
void v_havoc_bytes(void* p, size_t n){ if (n) __CPROVER_havoc_slice(p, n); }
#else
void v_havoc_bytes(void* p, size_t n){ (void)p; (void)n; }
#endif
