/* split model: small copies (<= V_SPLIT bytes: integers, repcode triples, headers) are exact byte
 * loops; larger copies (literal/match payload) are range-checked and the destination havocked.
 * Sound over-approximation whenever payload CONTENT is not the obligation. */
#include <stddef.h>
#ifndef V_SPLIT
#define V_SPLIT 12
#endif
#ifdef VERIF_CBMC
void *__builtin_memcpy(void *d, const void *s, size_t n){
  if (n <= V_SPLIT) { unsigned char*dd=d; const unsigned char*ss=s; for(size_t i=0;i<n;i++) dd[i]=ss[i]; return d; }
  __CPROVER_assert(__CPROVER_r_ok(s,n),"VCHECK: memcpy source range readable");
  __CPROVER_assert(__CPROVER_w_ok(d,n),"VCHECK: memcpy destination range writable");
  __CPROVER_havoc_slice(d,n);
  return d;}
void *__builtin_memmove(void *d, const void *s, size_t n){
  if (n <= V_SPLIT) { unsigned char t[V_SPLIT]; unsigned char*dd=d; const unsigned char*ss=s; for(size_t i=0;i<n;i++) t[i]=ss[i]; for(size_t i=0;i<n;i++) dd[i]=t[i]; return d; }
  __CPROVER_assert(__CPROVER_r_ok(s,n),"VCHECK: memmove source range readable");
  __CPROVER_assert(__CPROVER_w_ok(d,n),"VCHECK: memmove destination range writable");
  __CPROVER_havoc_slice(d,n);
  return d;}
void *__builtin_memset(void *d, int c, size_t n){
  if (n <= V_SPLIT) { unsigned char*dd=d; for(size_t i=0;i<n;i++) dd[i]=(unsigned char)c; return d; }
  __CPROVER_assert(__CPROVER_w_ok(d,n),"VCHECK: memset destination range writable");
  __CPROVER_havoc_slice(d,n);
  return d;}
void v_havoc_bytes(void* p, size_t n){ if (n) __CPROVER_havoc_slice(p, n); }
#else
void v_havoc_bytes(void* p, size_t n){ (void)p; (void)n; }
#endif
