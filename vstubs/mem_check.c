/* check-only model: copy ranges are obligations, the destination is left UNCHANGED.
 * Only sound as an over-approximation when the harness makes every destination that is read back
 * arbitrary (nondet) beforehand -- each harness using this model says which ones it does. */
#include <stddef.h>
#ifdef VERIF_CBMC
void *__builtin_memcpy(void *d, const void *s, size_t n){
  if (n) { __CPROVER_assert(__CPROVER_r_ok(s,n),"VCHECK: memcpy source range readable");
           __CPROVER_assert(__CPROVER_w_ok(d,n),"VCHECK: memcpy destination range writable"); }
  return d;}
void *__builtin_memmove(void *d, const void *s, size_t n){
  if (n) { __CPROVER_assert(__CPROVER_r_ok(s,n),"VCHECK: memmove source range readable");
           __CPROVER_assert(__CPROVER_w_ok(d,n),"VCHECK: memmove destination range writable"); }
  return d;}
void *__builtin_memset(void *d, int c, size_t n){
  if (n) { __CPROVER_assert(__CPROVER_w_ok(d,n),"VCHECK: memset destination range writable"); }
  return d;}
void v_havoc_bytes(void* p, size_t n){ if (n) __CPROVER_havoc_slice(p, n); }
#else
void v_havoc_bytes(void* p, size_t n){ (void)p; (void)n; }
#endif
